package main

import (
	"strings"
	"fmt"
	"go/types"
	"math/big"

	"golang.org/x/tools/go/ssa"
)

type externModel func(e *Engine, st *State, fr *Frame, site ssa.Instruction, callee *ssa.Function, args []Value, k cont)

type invokeModel func(e *Engine, st *State, fr *Frame, site ssa.Instruction, c *ssa.CallCommon, recv Value, args []Value, k cont) bool

var externModels map[string]externModel
var invokeModels map[string]invokeModel

func noop(e *Engine, st *State, fr *Frame, site ssa.Instruction, callee *ssa.Function, args []Value, k cont) {
	k(st, e.zeroResults(callee))
}

func (e *Engine) zeroResults(callee *ssa.Function) []Value {
	var res []Value
	sig := callee.Signature
	for i := 0; i < sig.Results().Len(); i++ {
		res = append(res, zeroValue(sig.Results().At(i).Type()))
	}
	return res
}

// freshErr returns a fresh non-nil error value.
func (e *Engine) freshErr(st *State, hint string) VIface {
	v := e.sym.Fresh("err!"+hint, SInt)
	tag := IntLit(tagNumber("type!error!" + hint))
	return VIface{Tag: tag, Val: v}
}

func (e *Engine) siteOf(fr *Frame, site ssa.Instruction) string {
	if site == nil {
		return ""
	}
	return fr.sites[site]
}

func bytesHeap(e *Engine, st *State) Term {
	return e.heapGet(st, heapName(types.Typ[types.Uint8], ""), arrOf(SArr))
}

func byteAt(e *Engine, st *State, s VSlice, i int64) Term {
	return Select(Select(bytesHeap(e, st), s.Arr), Add(s.Off, IntLit(i)))
}

func bigEndianGet(n int) externModel {
	return func(e *Engine, st *State, fr *Frame, site ssa.Instruction, callee *ssa.Function, args []Value, k cont) {
		b := args[len(args)-1].(VSlice)
		e.Assert(st, fr, "pre(binary.BigEndian.Uint)", "len>="+fmt.Sprint(n)+"@"+e.siteOf(fr, site), Ge(b.Len, IntLit(int64(n))))
		st.Assume(Ge(b.Len, IntLit(int64(n))))
		acc := TZero
		for i := 0; i < n; i++ {
			acc = Add(Mul(acc, IntLit(256)), byteAt(e, st, b, int64(i)))
		}
		h := bytesHeap(e, st)
		for i := 0; i < n; i++ {
			x := Select(Select(h, b.Arr), Add(b.Off, IntLit(int64(i))))
			st.Assume(And(Le(TZero, x), Le(x, IntLit(255))))
		}
		k(st, []Value{acc})
	}
}

func bigEndianPut(n int) externModel {
	return func(e *Engine, st *State, fr *Frame, site ssa.Instruction, callee *ssa.Function, args []Value, k cont) {
		b := args[len(args)-2].(VSlice)
		v := args[len(args)-1].(Term)
		e.Assert(st, fr, "pre(binary.BigEndian.PutUint)", "len>="+fmt.Sprint(n)+"@"+e.siteOf(fr, site), Ge(b.Len, IntLit(int64(n))))
		st.Assume(Ge(b.Len, IntLit(int64(n))))
		name := heapName(types.Typ[types.Uint8], "")
		h := bytesHeap(e, st)
		obj := Select(h, b.Arr)
		for i := 0; i < n; i++ {
			shift := uint(8 * (n - 1 - i))
			byteV := EMod(EDiv(v, BigLit(pow2(shift))), IntLit(256))
			obj = Store(obj, Add(b.Off, IntLit(int64(i))), byteV)
		}
		e.heapSet(st, name, Store(h, b.Arr, obj))
		k(st, nil)
	}
}

func errorCtor(hint string) externModel {
	return func(e *Engine, st *State, fr *Frame, site ssa.Instruction, callee *ssa.Function, args []Value, k cont) {
		k(st, []Value{e.freshErr(st, hint)})
	}
}

// wrapErr: pkg/errors.Wrapf(err, ...) is nil iff err is nil.
func wrapErr(e *Engine, st *State, fr *Frame, site ssa.Instruction, callee *ssa.Function, args []Value, k cont) {
	in := args[0].(VIface)
	out := e.freshErr(st, "wrap")
	k(st, []Value{VIface{Tag: Ite(Eq(in.Tag, TZero), TZero, out.Tag), Val: Ite(Eq(in.Tag, TZero), TZero, out.Val)}})
}

func uvarintLen(x Term) Term { return app(SInt, "uvarint_len", x) }

func init() {
	externModels = map[string]externModel{
		"(*sync.Mutex).Lock":      noop,
		"(*sync.Mutex).Unlock":    noop,
		"(*sync.RWMutex).Lock":    noop,
		"(*sync.RWMutex).Unlock":  noop,
		"(*sync.RWMutex).RLock":   noop,
		"(*sync.RWMutex).RUnlock": noop,
		"(*sync.WaitGroup).Add":   noop,
		"(*sync.WaitGroup).Done":  noop,
		"(*sync.WaitGroup).Wait":  noop,

		"(encoding/binary.bigEndian).Uint16":    bigEndianGet(2),
		"(encoding/binary.bigEndian).Uint32":    bigEndianGet(4),
		"(encoding/binary.bigEndian).Uint64":    bigEndianGet(8),
		"(encoding/binary.bigEndian).PutUint16": bigEndianPut(2),
		"(encoding/binary.bigEndian).PutUint32": bigEndianPut(4),
		"(encoding/binary.bigEndian).PutUint64": bigEndianPut(8),

		"errors.New":                          errorCtor("new"),
		"fmt.Errorf":                          errorCtor("errorf"),
		"github.com/pkg/errors.Errorf":        errorCtor("errorf"),
		"github.com/pkg/errors.New":           errorCtor("new"),
		"github.com/pkg/errors.Wrapf":         wrapErr,
		"github.com/pkg/errors.Wrap":          wrapErr,
		"github.com/pkg/errors.WithStack":     wrapErr,
		"github.com/pkg/errors.WithMessage":   wrapErr,
		"github.com/pkg/errors.WithMessagef":  wrapErr,

		"math/bits.LeadingZeros8": func(e *Engine, st *State, fr *Frame, site ssa.Instruction, callee *ssa.Function, args []Value, k cont) {
			k(st, []Value{app(SInt, "lz8", args[0].(Term))})
		},
		"bytes.Equal": func(e *Engine, st *State, fr *Frame, site ssa.Instruction, callee *ssa.Function, args []Value, k cont) {
			a, b := args[0].(VSlice), args[1].(VSlice)
			h := bytesHeap(e, st)
			r := e.sym.Fresh("bytesEqual", SBool)
			q := fmt.Sprintf("(forall ((i Int)) (=> (and (<= 0 i) (< i %s)) (= (select (select %s %s) (+ %s i)) (select (select %s %s) (+ %s i)))))",
				a.Len.S, h.S, a.Arr.S, a.Off.S, h.S, b.Arr.S, b.Off.S)
			st.Assume(Eq(r, And(Eq(a.Len, b.Len), Term{q, SBool})))
			k(st, []Value{r})
		},
		"crypto/subtle.ConstantTimeCompare": func(e *Engine, st *State, fr *Frame, site ssa.Instruction, callee *ssa.Function, args []Value, k cont) {
			a, b := args[0].(VSlice), args[1].(VSlice)
			h := bytesHeap(e, st)
			r := e.sym.Fresh("ctCompare", SBool)
			q := fmt.Sprintf("(forall ((i Int)) (=> (and (<= 0 i) (< i %s)) (= (select (select %s %s) (+ %s i)) (select (select %s %s) (+ %s i)))))",
				a.Len.S, h.S, a.Arr.S, a.Off.S, h.S, b.Arr.S, b.Off.S)
			st.Assume(Eq(r, And(Eq(a.Len, b.Len), Term{q, SBool})))
			k(st, []Value{Ite(r, TOne, TZero)})
		},
		"golang.org/x/exp/slices.SortFunc": func(e *Engine, st *State, fr *Frame, site ssa.Instruction, callee *ssa.Function, args []Value, k cont) {
			// permutes the elements of its slice argument: only that array's contents change
			// (the comparison function is assumed to have no effect)
			if s, ok := args[0].(VSlice); ok && callee.Signature.Params().Len() > 0 {
				if stt, ok := under(callee.Signature.Params().At(0).Type()).(*types.Slice); ok {
					e.havocObject(st, stt.Elem(), s.Arr)
				}
			}
			k(st, nil)
		},
		"(*net.UDPConn).ReadFromUDP": func(e *Engine, st *State, fr *Frame, site ssa.Instruction, callee *ssa.Function, args []Value, k cont) {
			// a blocking socket read: it waits on nothing but the socket, so no context cancellation
			// (and no channel close) can wake it; every "wakes" clause of the caller fails here
			if fr.contract != nil {
				for _, w := range fr.contract.Wakes {
					e.Assert(st, fr, "wakes", w.Label+"@"+e.siteOf(fr, site), TFalse)
				}
			}
			b := args[1].(VSlice)
			e.havocObject(st, types.Typ[types.Uint8], b.Arr)
			res := e.freshResults(st, callee.Signature, "ReadFromUDP")
			n := res[0].(Term)
			addr := res[1].(VPtr)
			errV := res[2].(VIface)
			st.Assume(Implies(Eq(errV.Tag, TZero), And(Le(TZero, n), Le(n, b.Len), Neq(addr.Ref, TZero))))
			k(st, res)
		},
		// x/crypto/ssh server handshake (assumed contract, from the library's documentation): the
		// PublicKeyCallback may be invoked for keys the client merely offers, in any order and more
		// than once; the connection carries the Permissions returned for the key that authenticated.
		// Modelled as: the callback runs for two arbitrary keys, either of which may be the one that
		// authenticated; its Permissions end up in ServerConn.Permissions. Ghost: the authenticated key.
		"golang.org/x/crypto/ssh.NewServerConn": func(e *Engine, st *State, fr *Frame, site ssa.Instruction, callee *ssa.Function, args []Value, k cont) {
			var cb *VFunc
			for _, vf := range st.funcs {
				vf := vf
				if vf.Fn != nil && vf.Fn.Signature.Params().Len() == 2 && vf.Fn.Signature.Results().Len() == 2 &&
					strings.HasSuffix(vf.Fn.Signature.Params().At(1).Type().String(), "ssh.PublicKey") {
					cb = &vf
				}
			}
			if cb == nil {
				panic(unsupported("ssh.NewServerConn: no PublicKeyCallback closure in sight"))
			}
			mkKey := func(s *State, hint string) VIface {
				v := VIface{Tag: e.sym.Fresh("sshkey!"+hint+"!tag", SInt), Val: e.sym.Fresh("sshkey!"+hint+"!val", SInt)}
				s.Assume(Neq(v.Tag, TZero))
				return v
			}
			md := VIface{Tag: e.sym.Fresh("sshmd!tag", SInt), Val: e.sym.Fresh("sshmd!val", SInt)}
			kA := mkKey(st, "a")
			e.callFunction(st, fr, site, cb.Fn, cb.Bind, []Value{md, kA}, func(s1 *State, rA []Value) {
				kB := mkKey(s1, "b")
				e.callFunction(s1, fr, site, cb.Fn, cb.Bind, []Value{md, kB}, func(s2 *State, rB []Value) {
					authA := e.sym.Fresh("sshauth!a", SBool)
					pick := func(a, b Term) Term { return Ite(authA, a, b) }
					pA, pB := rA[0].(VPtr), rB[0].(VPtr)
					eA, eB := rA[1].(VIface), rB[1].(VIface)
					res := e.freshResults(s2, callee.Signature, "NewServerConn")
					sc := res[0].(VPtr)
					errV := res[3].(VIface)
					ok := Eq(errV.Tag, TZero)
					// success: the authenticated key's callback had returned no error
					s2.Assume(Implies(ok, And(Neq(sc.Ref, TZero), Eq(pick(eA.Tag, eB.Tag), TZero))))
					perm := VPtr{Ref: pick(pA.Ref, pB.Ref), Idx: pick(pA.Idx, pB.Idx), Root: pA.Root, ArrLen: -1}
					if scT, isPtr := callee.Signature.Results().At(0).Type().(*types.Pointer); isPtr {
						fp := VPtr{Ref: sc.Ref, Idx: sc.Idx, Root: scT.Elem(), ArrLen: -1, Path: []Step{{Field: "Permissions"}}}
						e.storePtr(s2, fp, perm)
					}
					s2.ghost["ssh!auth!tag"] = pick(kA.Tag, kB.Tag)
					s2.ghost["ssh!auth!val"] = pick(kA.Val, kB.Val)
					k(s2, res)
				})
			})
		},
		"(*golang.org/x/crypto/ssh.ServerConfig).AddHostKey": noop,
		"golang.org/x/crypto/ssh.FingerprintSHA256": func(e *Engine, st *State, fr *Frame, site ssa.Instruction, callee *ssa.Function, args []Value, k cont) {
			// a function of the key; collision resistance is assumed (the key is recoverable from it)
			key := args[0].(VIface)
			f := e.sym.Func("ssh_fp", []string{SInt, SInt}, SStr)
			it := e.sym.Func("ssh_fp_inv_tag", []string{SStr}, SInt)
			iv := e.sym.Func("ssh_fp_inv_val", []string{SStr}, SInt)
			r := app(SStr, f, key.Tag, key.Val)
			st.Assume(And(Eq(app(SInt, it, r), key.Tag), Eq(app(SInt, iv, r), key.Val)))
			k(st, []Value{VStr{r}})
		},
		"bytes.Compare": func(e *Engine, st *State, fr *Frame, site ssa.Instruction, callee *ssa.Function, args []Value, k cont) {
			a, b := args[0].(VSlice), args[1].(VSlice)
			h := bytesHeap(e, st)
			f := e.sym.Func("bytes_compare", []string{SArr, SInt, SInt, SArr, SInt, SInt}, SInt)
			r := app(SInt, f, Select(h, a.Arr), a.Off, a.Len, Select(h, b.Arr), b.Off, b.Len)
			st.Assume(And(Le(IntLit(-1), r), Le(r, TOne)))
			k(st, []Value{r})
		},
		"encoding/binary.PutUvarint": func(e *Engine, st *State, fr *Frame, site ssa.Instruction, callee *ssa.Function, args []Value, k cont) {
			b := args[0].(VSlice)
			x := args[1].(Term)
			n := uvarintLen(x)
			e.Assert(st, fr, "pre(binary.PutUvarint)", "len>=uvarint_len@"+e.siteOf(fr, site), Ge(b.Len, n))
			st.Assume(Ge(b.Len, n))
			// writes bytes [0,n) of b: enc(x)
			name := heapName(types.Typ[types.Uint8], "")
			h := bytesHeap(e, st)
			nd := e.sym.Fresh("uvarint!data", SArr)
			obj := Select(h, b.Arr)
			f := "uvarint_byte" // defined in the prelude
			q := fmt.Sprintf("(forall ((i Int)) (! (= (select %s i) (ite (and (<= %s i) (< i (+ %s %s))) (%s %s (- i %s)) (select %s i))) :pattern ((select %s i))))",
				nd.S, b.Off.S, b.Off.S, n.S, f, x.S, b.Off.S, obj.S, nd.S)
			st.Assume(Term{q, SBool})
			e.heapSet(st, name, Store(h, b.Arr, nd))
			k(st, []Value{n})
		},
		"encoding/binary.PutVarint": func(e *Engine, st *State, fr *Frame, site ssa.Instruction, callee *ssa.Function, args []Value, k cont) {
			b := args[0].(VSlice)
			x := args[1].(Term)
			// zigzag
			ux := Ite(Ge(x, TZero), Mul(IntLit(2), x), Sub(Mul(IntLit(-2), x), TOne))
			n := uvarintLen(ux)
			e.Assert(st, fr, "pre(binary.PutVarint)", "len>=varint_len@"+e.siteOf(fr, site), Ge(b.Len, n))
			st.Assume(Ge(b.Len, n))
			e.havocObject(st, types.Typ[types.Uint8], b.Arr)
			k(st, []Value{n})
		},
		"encoding/binary.Uvarint": func(e *Engine, st *State, fr *Frame, site ssa.Instruction, callee *ssa.Function, args []Value, k cont) {
			b := args[0].(VSlice)
			h := bytesHeap(e, st)
			// uvarint_val / uvarint_n are defined exactly in the prelude (10-step unrolling of the
			// standard library loop); the results are named to keep later terms small.
			d := Select(h, b.Arr)
			v := e.sym.Fresh("uvarint!v", SInt)
			n := e.sym.Fresh("uvarint!n", SInt)
			st.Assume(Eq(v, app(SInt, "uvarint_val", d, b.Off, b.Len)))
			st.Assume(Eq(n, app(SInt, "uvarint_n", d, b.Off, b.Len)))
			// consequences of the definition, stated to spare the solver the case analysis
			st.Assume(And(Le(TZero, v), Le(v, BigLit(new(big.Int).Sub(pow2(64), big.NewInt(1))))))
			st.Assume(And(Le(n, IntLit(10)), Le(n, b.Len), Ge(n, IntLit(-11)), Le(Sub(TZero, n), b.Len)))
			st.Assume(Implies(Le(n, TZero), Eq(v, TZero)))
			k(st, []Value{v, n})
		},
		"time.Now": func(e *Engine, st *State, fr *Frame, site ssa.Instruction, callee *ssa.Function, args []Value, k cont) {
			t := e.sym.Fresh("now", SInt)
			st.Assume(Gt(t, TZero))
			k(st, []Value{t})
		},
		"(time.Time).IsZero": func(e *Engine, st *State, fr *Frame, site ssa.Instruction, callee *ssa.Function, args []Value, k cont) {
			k(st, []Value{Eq(args[0].(Term), TZero)})
		},
		"(time.Time).Before": func(e *Engine, st *State, fr *Frame, site ssa.Instruction, callee *ssa.Function, args []Value, k cont) {
			k(st, []Value{Lt(args[0].(Term), args[1].(Term))})
		},
		"(time.Time).After": func(e *Engine, st *State, fr *Frame, site ssa.Instruction, callee *ssa.Function, args []Value, k cont) {
			k(st, []Value{Gt(args[0].(Term), args[1].(Term))})
		},
		"(time.Time).Equal": func(e *Engine, st *State, fr *Frame, site ssa.Instruction, callee *ssa.Function, args []Value, k cont) {
			k(st, []Value{Eq(args[0].(Term), args[1].(Term))})
		},
		"(time.Time).Add": func(e *Engine, st *State, fr *Frame, site ssa.Instruction, callee *ssa.Function, args []Value, k cont) {
			k(st, []Value{Add(args[0].(Term), args[1].(Term))})
		},
		"(time.Time).Sub": func(e *Engine, st *State, fr *Frame, site ssa.Instruction, callee *ssa.Function, args []Value, k cont) {
			k(st, []Value{Sub(args[0].(Term), args[1].(Term))})
		},
		"(time.Time).UTC": func(e *Engine, st *State, fr *Frame, site ssa.Instruction, callee *ssa.Function, args []Value, k cont) {
			k(st, []Value{args[0]})
		},
		"(*sync.Once).Do": func(e *Engine, st *State, fr *Frame, site ssa.Instruction, callee *ssa.Function, args []Value, k cont) {
			p := args[0].(VPtr)
			done := e.loadPtr(st, p, nil).(Term)
			e.fork(st, done,
				func(s *State) { k(s, nil) },
				func(s *State) {
					e.storePtr(s, p, TTrue)
					f, ok := args[1].(VFunc)
					if !ok || f.Fn == nil {
						panic(unsupported("sync.Once.Do with unknown function"))
					}
					e.callFunction(s, fr, site, f.Fn, f.Bind, nil, func(s2 *State, _ []Value) { k(s2, nil) })
				})
		},
		"sync/atomic.AddUint32": func(e *Engine, st *State, fr *Frame, site ssa.Instruction, callee *ssa.Function, args []Value, k cont) {
			p := args[0].(VPtr)
			old := e.loadPtr(st, p, nil).(Term)
			nv := EMod(Add(old, args[1].(Term)), BigLit(pow2(32)))
			e.storePtr(st, p, nv)
			k(st, []Value{nv})
		},
		"sync/atomic.AddUint64": func(e *Engine, st *State, fr *Frame, site ssa.Instruction, callee *ssa.Function, args []Value, k cont) {
			p := args[0].(VPtr)
			old := e.loadPtr(st, p, nil).(Term)
			nv := EMod(Add(old, args[1].(Term)), BigLit(pow2(64)))
			e.storePtr(st, p, nv)
			k(st, []Value{nv})
		},
		"sync/atomic.LoadUint64": func(e *Engine, st *State, fr *Frame, site ssa.Instruction, callee *ssa.Function, args []Value, k cont) {
			k(st, []Value{e.loadPtr(st, args[0].(VPtr), nil)})
		},
		"sync/atomic.LoadUint32": func(e *Engine, st *State, fr *Frame, site ssa.Instruction, callee *ssa.Function, args []Value, k cont) {
			k(st, []Value{e.loadPtr(st, args[0].(VPtr), nil)})
		},
		// flynn/noise handshake state: opaque; a successful WriteMessage appends to out (so the
		// result is non-nil when out is), nothing of the caller's state is touched (assumed)
		"(*github.com/flynn/noise.HandshakeState).WriteMessage": func(e *Engine, st *State, fr *Frame, site ssa.Instruction, callee *ssa.Function, args []Value, k cont) {
			out := args[1].(VSlice)
			res := e.freshResults(st, callee.Signature, "WriteMessage")
			r := res[0].(VSlice)
			errV := res[3].(VIface)
			st.Assume(Implies(Eq(errV.Tag, TZero), And(Ge(r.Len, out.Len), Implies(Gt(out.Len, TZero), Neq(r.Arr, TZero)))))
			k(st, res)
		},
		"github.com/flynn/noise.NewHandshakeState": func(e *Engine, st *State, fr *Frame, site ssa.Instruction, callee *ssa.Function, args []Value, k cont) {
			// returns a new handshake state or an error; nothing of the caller's state is touched (assumed)
			old := st.next
			res := e.freshResults(st, callee.Signature, "NewHandshakeState")
			p := res[0].(VPtr)
			errV := res[1].(VIface)
			st.Assume(Implies(Eq(errV.Tag, TZero), And(Neq(p.Ref, TZero), Ge(p.Ref, old))))
			k(st, res)
		},
		"(*github.com/flynn/noise.HandshakeState).ReadMessage": func(e *Engine, st *State, fr *Frame, site ssa.Instruction, callee *ssa.Function, args []Value, k cont) {
			k(st, e.freshResults(st, callee.Signature, "ReadMessage"))
		},
		"(*github.com/flynn/noise.HandshakeState).ChannelBinding": func(e *Engine, st *State, fr *Frame, site ssa.Instruction, callee *ssa.Function, args []Value, k cont) {
			k(st, e.freshResults(st, callee.Signature, "ChannelBinding"))
		},
		"(*github.com/flynn/noise.CipherState).Cipher": func(e *Engine, st *State, fr *Frame, site ssa.Instruction, callee *ssa.Function, args []Value, k cont) {
			k(st, e.freshResults(st, callee.Signature, "Cipher"))
		},
		"(*golang.zx2c4.com/wireguard/replay.Filter).ValidateCounter": func(e *Engine, st *State, fr *Frame, site ssa.Instruction, callee *ssa.Function, args []Value, k cont) {
			// accepts a counter at most once and only below the limit (assumed contract of the filter)
			ok := e.sym.Fresh("validateCounter", SBool)
			st.Assume(Implies(ok, Lt(args[1].(Term), args[2].(Term))))
			k(st, []Value{ok})
		},
		"runtime.GOMAXPROCS": func(e *Engine, st *State, fr *Frame, site ssa.Instruction, callee *ssa.Function, args []Value, k cont) {
			n := e.sym.Fresh("gomaxprocs", SInt)
			st.Assume(And(Ge(n, TOne), Le(n, IntLit(1<<20))))
			k(st, []Value{n})
		},
		"(*golang.org/x/sync/errgroup.Group).Go": func(e *Engine, st *State, fr *Frame, site ssa.Instruction, callee *ssa.Function, args []Value, k cont) {
			// sequentialisation: the function runs once, here
			e.note("errgroup.Group.Go(f) is sequentialised: f runs at the call site")
			f, ok := args[1].(VFunc)
			if !ok || f.Fn == nil {
				panic(unsupported("errgroup.Go with unknown function"))
			}
			e.callFunction(st, fr, site, f.Fn, f.Bind, nil, func(s *State, res []Value) {
				// remember whether any task failed
				if len(res) == 1 {
					if iv, ok := res[0].(VIface); ok {
						prev, have := s.ghost["eg!failed"]
						if !have {
							prev = TFalse
						}
						s.ghost["eg!failed"] = Or(prev, Neq(iv.Tag, TZero))
					}
				}
				k(s, nil)
			})
		},
		"(*golang.org/x/sync/errgroup.Group).Wait": func(e *Engine, st *State, fr *Frame, site ssa.Instruction, callee *ssa.Function, args []Value, k cont) {
			failed, have := st.ghost["eg!failed"]
			out := e.freshErr(st, "egwait")
			if !have {
				failed = e.sym.Fresh("egfailed", SBool)
			}
			k(st, []Value{VIface{Tag: Ite(failed, out.Tag, TZero), Val: Ite(failed, out.Val, TZero)}})
		},
	}
	for _, n := range []string{"Errorln", "Errorf", "Error", "Warnln", "Warnf", "Warn", "Infoln", "Infof", "Info", "Debugln", "Debugf", "Debug"} {
		externModels["go.brendoncarroll.net/stdctx/logctx."+n] = noop
	}
	// zap logging: assumed to have no effect on the verified state
	for _, n := range []string{"Debug", "Info", "Warn", "Error", "Sync"} {
		externModels["(*go.uber.org/zap.Logger)."+n] = noop
	}
	for _, n := range []string{"Any", "String", "Int", "Error", "Bool", "Uint8", "Uint32", "Uint64", "Binary", "Time", "Duration", "Stringer", "NamedError", "Int64", "Uint", "Uint16"} {
		knownPure["go.uber.org/zap."+n] = true
	}
	invokeModels = map[string]invokeModel{
		// noise.Cipher (AEAD): Encrypt appends len(plaintext)+16 bytes to out; Decrypt appends the
		// plaintext or fails; neither touches the caller's state (assumed contract)
		"Encrypt": func(e *Engine, st *State, fr *Frame, site ssa.Instruction, c *ssa.CallCommon, recv Value, args []Value, k cont) bool {
			if !isNamed(c.Value.Type(), "github.com/flynn/noise", "Cipher") {
				return false
			}
			out, pt := args[0].(VSlice), args[3].(VSlice)
			res := e.freshResults(st, c.Signature(), "Encrypt")
			r := res[0].(VSlice)
			st.Assume(And(Eq(r.Len, Add(Add(out.Len, pt.Len), IntLit(16))), Neq(r.Arr, TZero)))
			e.assumed["noise.Cipher.Encrypt: appends len(plaintext)+16 bytes to out, no other effect (assumed AEAD contract)"] = true
			k(st, res)
			return true
		},
		"Decrypt": func(e *Engine, st *State, fr *Frame, site ssa.Instruction, c *ssa.CallCommon, recv Value, args []Value, k cont) bool {
			if !isNamed(c.Value.Type(), "github.com/flynn/noise", "Cipher") {
				return false
			}
			e.assumed["noise.Cipher.Decrypt: returns the plaintext or an error, no other effect (assumed AEAD contract)"] = true
			k(st, e.freshResults(st, c.Signature(), "Decrypt"))
			return true
		},
		"Done": func(e *Engine, st *State, fr *Frame, site ssa.Instruction, c *ssa.CallCommon, recv Value, args []Value, k cont) bool {
			if !isNamed(c.Value.Type(), "context", "Context") {
				return false
			}
			k(st, []Value{e.ctxDone(recv)})
			return true
		},
		"Err": func(e *Engine, st *State, fr *Frame, site ssa.Instruction, c *ssa.CallCommon, recv Value, args []Value, k cont) bool {
			if !isNamed(c.Value.Type(), "context", "Context") {
				return false
			}
			iv := recv.(VIface)
			ft := e.sym.Func("ctx_err_tag", []string{SInt, SInt}, SInt)
			fv := e.sym.Func("ctx_err_val", []string{SInt, SInt}, SInt)
			tag := app(SInt, ft, iv.Tag, iv.Val)
			val := app(SInt, fv, iv.Tag, iv.Val)
			st.Assume(Eq(e.chanClosed(st, e.ctxDone(recv), nil), Neq(tag, TZero)))
			k(st, []Value{VIface{Tag: tag, Val: val}})
			return true
		},
	}
}

