package main

import (
	"fmt"
	"os"
	"go/token"
	"go/types"
	"math/big"
	"strings"

	"golang.org/x/tools/go/ssa"
)

type bigInt = big.Int

const tokXOR = token.XOR

const maxInlineDepth = 6

// execCall executes a call (Call, Defer or Go site) and continues with k.
func (e *Engine) execCall(st *State, fr *Frame, site ssa.Instruction, c *ssa.CallCommon, k0 cont) {
	if st.dead {
		return
	}
	k := k0
	if fr.contract != nil && len(fr.contract.Ghost) > 0 {
		var hargs []Value
		if c.IsInvoke() {
			hargs = append(hargs, e.get(st, fr, c.Value))
		}
		for _, a := range c.Args {
			hargs = append(hargs, e.get(st, fr, a))
		}
		e.ghostHooks(st, fr, "before", site, c, hargs, nil)
		if st.dead {
			return
		}
		k = func(s *State, res []Value) {
			e.ghostHooks(s, fr, "after", site, c, hargs, res)
			k0(s, res)
		}
	}
	// builtins
	if b, ok := c.Value.(*ssa.Builtin); ok {
		var args []Value
		for _, a := range c.Args {
			args = append(args, e.get(st, fr, a))
		}
		res := e.execBuiltin(st, fr, site, b, c, args)
		if st.dead {
			return
		}
		k(st, res)
		return
	}
	var args []Value
	var callee *ssa.Function
	var bind []Value
	if c.IsInvoke() {
		recv := e.get(st, fr, c.Value)
		for _, a := range c.Args {
			args = append(args, e.get(st, fr, a))
		}
		if iv, ok := recv.(VIface); ok && iv.Dyn != nil && iv.DynT != nil {
			if m := e.prog.LookupMethod(iv.DynT, c.Method.Pkg(), c.Method.Name()); m != nil {
				callee = m
				args = append([]Value{iv.Dyn}, args...)
			}
		}
		if callee == nil {
			e.dynamicCall(st, fr, site, c, recv, args, k)
			return
		}
	} else {
		for _, a := range c.Args {
			args = append(args, e.get(st, fr, a))
		}
		switch v := c.Value.(type) {
		case *ssa.Function:
			callee = v
		case *ssa.MakeClosure:
			callee = v.Fn.(*ssa.Function)
			cl := e.get(st, fr, v).(VFunc)
			bind = cl.Bind
		default:
			fv := e.get(st, fr, c.Value)
			if vf, ok := fv.(VFunc); ok && vf.Fn != nil {
				callee = vf.Fn
				bind = vf.Bind
			} else if t, ok := fv.(Term); ok && st.funcs != nil {
				if vf, ok := st.funcs[t.S]; ok {
					callee = vf.Fn
					bind = vf.Bind
				}
			}
			if callee == nil {
				e.dynamicCall(st, fr, site, c, fv, args, k)
				return
			}
		}
	}
	e.callFunction(st, fr, site, callee, bind, args, k)
}

func originOf(fn *ssa.Function) *ssa.Function {
	if o := fn.Origin(); o != nil {
		return o
	}
	return fn
}

func externName(fn *ssa.Function) string {
	fn = originOf(fn)
	s := fn.String()
	return s
}

func (e *Engine) callFunction(st *State, fr *Frame, site ssa.Instruction, callee *ssa.Function, bind []Value, args []Value, k cont) {
	name := externName(callee)
	if m, ok := externModels[name]; ok {
		e.assumed["extern model: "+name] = true
		m(e, st, fr, site, callee, args, k)
		return
	}
	// instantiation wrappers / thunks delegate to the origin
	target := callee
	if o := callee.Origin(); o != nil && len(callee.Blocks) == 0 {
		target = o
	}
	ct := e.cs.Funcs[fullKey(target)]
	isSelf := false
	for f := fr; f != nil; f = f.caller {
		if f.fn == target {
			isSelf = true
		}
	}
	if ct != nil && !ct.Inline {
		e.applyContract(st, fr, site, target, ct, args, k, bind...)
		return
	}
	if len(target.Blocks) > 0 && fr.depth < maxInlineDepth && !isSelf {
		e.inlineCall(st, fr, site, target, bind, args, k)
		return
	}
	if callee.Synthetic != "" && len(callee.Blocks) > 0 && fr.depth < maxInlineDepth && !isSelf {
		e.inlineCall(st, fr, site, callee, bind, args, k)
		return
	}
	e.havocCall(st, fr, site, callee, args, k)
}

func (e *Engine) inlineCall(st *State, fr *Frame, site ssa.Instruction, callee *ssa.Function, bind []Value, args []Value, k cont) {
	prefix := fr.prefix
	if originOf(callee).Parent() == nil || true {
		prefix = fr.prefix + "/" + funcKey(callee)
	}
	nf := e.newFrame(callee, fr, prefix)
	nf.oldHeap = fr.oldHeap
	nf.oldNext = fr.oldNext
	if nf.contract != nil {
		defer func() {}()
	}
	if len(args) != len(callee.Params) {
		panic(unsupported(fmt.Sprintf("inline %s: %d args for %d params", callee, len(args), len(callee.Params))))
	}
	for i, p := range callee.Params {
		nf.vals[p] = args[i]
		nf.names[p.Name()] = p
	}
	for i, fv := range callee.FreeVars {
		if i < len(bind) {
			nf.vals[fv] = bind[i]
			nf.names[fv.Name()] = fv
			if _, isPtr := fv.Type().(*types.Pointer); isPtr {
				nf.nameAddr[fv.Name()] = true
			}
		}
	}
	if len(callee.Blocks) == 0 {
		panic(unsupported("inline of function without body " + callee.String()))
	}
	e.runBlock(st, nf, callee.Blocks[0], nil, func(s *State, res []Value) {
		k(s, res)
	})
}

// havocCall: unknown function without a model: results unconstrained, objects reachable through
// pointer/slice arguments havocked.
func (e *Engine) havocCall(st *State, fr *Frame, site ssa.Instruction, callee *ssa.Function, args []Value, k cont) {
	name := externName(callee)
	if os.Getenv("GOVC_DEBUG") != "" {
		fmt.Fprintf(os.Stderr, "havocCall %s: blocks=%d origin=%v synthetic=%q depth=%d\n", callee, len(callee.Blocks), callee.Origin(), callee.Synthetic, fr.depth)
	}
	e.assumed["unmodelled call: "+name+" (results unconstrained; memory reachable from its arguments havocked; assumed not to panic)"] = true
	sig := callee.Signature
	for _, a := range args {
		st.escape(a)
	}
	// an fnspec of an enclosing contract, keyed by the function's short name, applies to an
	// unmodelled library function as it does to a callback: what it is assumed to preserve and
	// to ensure is listed as an assumption
	var spec *FnSpec
	for f := fr; f != nil && spec == nil; f = f.caller {
		if f.contract != nil {
			if s, ok := f.contract.FnSpecs[callee.Name()]; ok {
				spec = s
			}
		}
	}
	if spec != nil && !spec.Pure && len(spec.Requires) == 0 {
		var preserved []specVal
		for _, cl := range spec.Preserves {
			env := &SpecEnv{e: e, st: st, fr: fr, vars: map[string]specVal{}, oldHeap: fr.oldHeap, oldNext: fr.oldNext, pkg: pkgPathOf(fr.fn)}
			preserved = append(preserved, env.eval(cl.E))
		}
		e.havocArgs(st, args, sigParamTypes(callee))
		res := e.freshResults(st, sig, shortName(name))
		for i, cl := range spec.Preserves {
			env := &SpecEnv{e: e, st: st, fr: fr, vars: map[string]specVal{}, oldHeap: fr.oldHeap, oldNext: fr.oldNext, pkg: pkgPathOf(fr.fn)}
			e.assumed["unmodelled call "+name+" in "+displayKey(fr.fn)+": assumed to preserve "+cl.Src] = true
			st.Assume(env.equal(preserved[i], env.eval(cl.E)))
		}
		specVars := map[string]specVal{}
		for i, r := range res {
			if i < sig.Results().Len() {
				specVars[fmt.Sprintf("res%d", i)] = specVal{r, sig.Results().At(i).Type()}
			}
		}
		for _, cl := range spec.Ensures {
			e.assumed["unmodelled call "+name+" in "+displayKey(fr.fn)+": assumed to ensure "+cl.Src] = true
			st.Assume(e.evalClause(st, fr, cl, specVars))
		}
		k(st, res)
		return
	}
	if idx, ok := writesOnlyArg[name]; ok {
		ts := sigParamTypes(callee)
		if idx < len(args) && idx < len(ts) {
			e.havocReach(st, args[idx], ts[idx], 0)
		}
	} else if !knownPure[name] {
		e.havocArgs(st, args, sigParamTypes(callee))
	}
	k(st, e.freshResults(st, sig, shortName(name)))
}

// knownPure: external functions assumed not to modify memory reachable from their arguments
// (listed in the evidence through the "unmodelled call" assumption of each use).
var knownPure = map[string]bool{
	"google.golang.org/protobuf/proto.Marshal": true,
	"golang.org/x/crypto/blake2b.NewXOF":       true,
	"golang.org/x/crypto/blake2b.Sum256":       true,
	"go.brendoncarroll.net/tai64.ParseN":       true,
	"encoding/asn1.Marshal":                    true,
	"(time.Duration).Milliseconds":             true,
	"time.Unix":                                true,
	"(time.Time).UnixNano":                     true,
	"(*encoding/base64.Encoding).EncodedLen":   true,
	"io.ReadAll":                               true,
	"io.LimitReader":                           true,
	"context.WithCancel":                       true,
	"context.WithTimeout":                      true,
	"context.WithDeadline":                     true,
	"context.Background":                       true,
	"context.TODO":                             true,
	"(*encoding/base64.Encoding).DecodedLen":   true,
}

// writesOnlyArg: external functions that write only through the given argument
var writesOnlyArg = map[string]int{
	"google.golang.org/protobuf/proto.Unmarshal": 1,
	"io.ReadFull":           1,
	"encoding/asn1.Unmarshal": 1,
	"(*encoding/base64.Encoding).Decode": 1,
	"(*encoding/base64.Encoding).Encode": 1,
}

func shortName(s string) string {
	if i := strings.LastIndex(s, "/"); i >= 0 {
		s = s[i+1:]
	}
	return s
}

func sigParamTypes(fn *ssa.Function) []types.Type {
	var out []types.Type
	for _, p := range fn.Params {
		out = append(out, p.Type())
	}
	if len(out) == 0 {
		sig := fn.Signature
		if sig.Recv() != nil {
			out = append(out, sig.Recv().Type())
		}
		for i := 0; i < sig.Params().Len(); i++ {
			out = append(out, sig.Params().At(i).Type())
		}
	}
	return out
}

func (e *Engine) freshResults(st *State, sig *types.Signature, hint string) []Value {
	nx := e.sym.Fresh("next", SInt)
	st.Assume(Ge(nx, st.next))
	st.next = nx
	var res []Value
	for i := 0; i < sig.Results().Len(); i++ {
		res = append(res, e.freshTyped(st, sig.Results().At(i).Type(), fmt.Sprintf("%s!r%d", hint, i)))
	}
	return res
}

// havocArgs havocs the heap objects directly reachable from pointer and slice arguments.
func (e *Engine) havocArgs(st *State, args []Value, ts []types.Type) {
	for i, a := range args {
		if i >= len(ts) {
			break
		}
		e.havocReach(st, a, ts[i], 0)
	}
}

func (e *Engine) havocReach(st *State, v Value, t types.Type, depth int) {
	switch x := v.(type) {
	case VSlice:
		et := t.Underlying().(*types.Slice).Elem()
		e.havocObject(st, et, x.Arr)
	case VPtr:
		e.havocObject(st, x.Root, x.Ref)
	case VStruct:
		if st2, ok := t.Underlying().(*types.Struct); ok && !unitType(t) {
			if _, sc := scalarNamed(t); sc {
				return
			}
			for i := 0; i < st2.NumFields() && i < len(x.F); i++ {
				e.havocReach(st, x.F[i], st2.Field(i).Type(), depth+1)
			}
		}
	case VIface:
		if x.Dyn != nil && x.DynT != nil && depth < 3 {
			// the boxed value is known: only what it reaches
			e.havocReach(st, x.Dyn, x.DynT, depth+1)
			return
		}
		e.havocAllHeap(st, "dynamic argument")
	case VFunc:
		// opaque: may reach anything
		e.havocAllHeap(st, "dynamic argument")
	case Term:
		if _, ok := t.Underlying().(*types.Map); ok {
			e.havocAllHeap(st, "map argument")
		}
		if _, ok := t.Underlying().(*types.Signature); ok {
			e.havocAllHeap(st, "function argument")
		}
	}
}

func (e *Engine) havocObject(st *State, root types.Type, ref Term) {
	prefix := "A!" + heapTypeName(root) + "!"
	for _, c := range flatten(root) {
		name := heapName(root, c.Path)
		e.heapGet(st, name, arrOf(arrOf(c.Sort)))
	}
	for name, h := range st.heap {
		if strings.HasPrefix(name, prefix) {
			fresh := e.sym.Fresh("hobj", elemSort(h.Sort))
			e.typeObj(fresh, name)
			st.heap[name] = Store(h, ref, fresh)
		}
	}
}

// dynamicCall: call through an unknown function value or interface method.
func (e *Engine) dynamicCall(st *State, fr *Frame, site ssa.Instruction, c *ssa.CallCommon, fv Value, args []Value, k cont) {
	name := callName(c)
	// fnspec of the enclosing function's contract, keyed by the parameter's source name
	var spec *FnSpec
	for f := fr; f != nil && spec == nil; f = f.caller {
		if f.contract != nil {
			if s, ok := f.contract.FnSpecs[name]; ok {
				spec = s
			} else if s, ok := f.contract.FnSpecs["fn"]; ok && !c.IsInvoke() {
				spec = s
			}
		}
	}
	if c.IsInvoke() {
		if m, ok := invokeModels[c.Method.Name()]; ok {
			if m(e, st, fr, site, c, fv, args, k) {
				return
			}
		}
	}
	for _, a := range args {
		st.escape(a)
	}
	st.escape(fv)
	specVars := map[string]specVal{}
	if spec != nil && (len(spec.Requires) > 0 || len(spec.Ensures) > 0) {
		var ats []types.Type
		if c.IsInvoke() {
			ats = append(ats, c.Value.Type())
		}
		for _, a := range c.Args {
			ats = append(ats, a.Type())
		}
		all := args
		if c.IsInvoke() {
			// arg0 is the receiver, as in the before/after call hooks
			all = append([]Value{fv}, args...)
		}
		for i, a := range all {
			if i < len(ats) {
				specVars[fmt.Sprintf("arg%d", i)] = specVal{a, ats[i]}
			}
		}
		// what the callback may rely on
		for _, cl := range spec.Requires {
			cnd := e.evalClause(st, fr, cl, specVars)
			e.Assert(st, fr, "pre("+name+")", cl.Label+"@"+e.siteOf(fr, site), cnd)
			st.Assume(cnd)
		}
	}
	var preserved []specVal
	if spec != nil {
		for _, cl := range spec.Preserves {
			env := &SpecEnv{e: e, st: st, fr: fr, vars: map[string]specVal{}, oldHeap: fr.oldHeap, oldNext: fr.oldNext, pkg: pkgPathOf(fr.fn)}
			preserved = append(preserved, env.eval(cl.E))
		}
	}
	if spec != nil && spec.Pure {
		e.assumed["callback/interface call "+name+" in "+displayKey(fr.fn)+": assumed not to modify the verified state (fnspec pure)"] = true
	} else {
		e.assumed["dynamic call "+name+" in "+displayKey(fr.fn)+": all heap state havocked, result unconstrained"] = true
		e.havocAllHeap(st, "dynamic call "+name)
	}
	res := e.freshResults(st, c.Signature(), name)
	if spec != nil {
		for i, cl := range spec.Preserves {
			env := &SpecEnv{e: e, st: st, fr: fr, vars: map[string]specVal{}, oldHeap: fr.oldHeap, oldNext: fr.oldNext, pkg: pkgPathOf(fr.fn)}
			e.assumed["callback/interface call "+name+" in "+displayKey(fr.fn)+": assumed to preserve "+cl.Src] = true
			st.Assume(env.equal(preserved[i], env.eval(cl.E)))
		}
	}
	if spec != nil && len(spec.Ensures) > 0 {
		// what the callback is assumed to guarantee (listed as an assumption)
		sig := c.Signature()
		for i, r := range res {
			if i < sig.Results().Len() {
				specVars[fmt.Sprintf("res%d", i)] = specVal{r, sig.Results().At(i).Type()}
			}
		}
		for _, cl := range spec.Ensures {
			e.assumed["callback/interface call "+name+" in "+displayKey(fr.fn)+": assumed to ensure "+cl.Src] = true
			st.Assume(e.evalClause(st, fr, cl, specVars))
		}
	}
	k(st, res)
}

// ghostHooks runs the "before/after call name#k" hooks of the contract of the enclosing function:
// assertions about the arguments (arg0, arg1, ... with the receiver first) and results (res0, ...).
func (e *Engine) ghostHooks(st *State, fr *Frame, when string, site ssa.Instruction, c *ssa.CallCommon, args, res []Value) {
	if fr.contract == nil || len(fr.contract.Ghost) == 0 || st.dead {
		return
	}
	callee := callName(c)
	siteName := ""
	if site != nil {
		siteName = fr.sites[site]
	}
	defer func() {
		if r := recover(); r != nil {
			if se, ok := r.(specErr); ok {
				panic(specErr{fmt.Sprintf("%s (in a %s-call hook at call %s, site %s)", se.msg, when, callee, siteName)})
			}
			panic(r)
		}
	}()
	isStatic := false
	switch c.Value.(type) {
	case *ssa.Function, *ssa.Builtin, *ssa.MakeClosure:
		isStatic = true
	}
	matches := func(h GhostHook) bool {
		cal := callee
		if h.Callee == "fn" && !c.IsInvoke() && !isStatic {
			// legacy name of a call through a function value
			cal = "fn"
		}
		if h.Callee != cal && h.Callee != siteName && !(strings.HasSuffix(h.Callee, "#0") && strings.TrimSuffix(h.Callee, "#0") == siteName) {
			return false
		}
		if strings.Contains(h.Callee, "#") && h.Callee != siteName && !(strings.HasSuffix(h.Callee, "#0") && strings.TrimSuffix(h.Callee, "#0") == siteName) {
			return false
		}
		return true
	}
	// "preserves e" inside an after-call hook: the call is assumed not to change e
	for hi, h := range fr.contract.Ghost {
		if h.When != "after" || len(h.Preserves) == 0 || !matches(h) {
			continue
		}
		for i, cl := range h.Preserves {
			env := &SpecEnv{e: e, st: st, fr: fr, vars: map[string]specVal{}, oldHeap: fr.oldHeap, oldNext: fr.oldNext, pkg: pkgPathOf(fr.fn)}
			key := fmt.Sprintf("pres!%d!%d!%s", hi, i, siteName)
			ev := env.eval(cl.E).v
			if pv, isPtr := ev.(VPtr); isPtr {
				// a pointer is preserved when it designates the same object
				if when == "before" {
					st.ghost[key+"!ref"] = pv.Ref
					st.ghost[key+"!idx"] = pv.Idx
				} else if saved, have := st.ghost[key+"!ref"]; have {
					e.assumed["call "+callee+" in "+displayKey(fr.fn)+": assumed to preserve "+cl.Src] = true
					st.Assume(And(Eq(saved, pv.Ref), Eq(st.ghost[key+"!idx"], pv.Idx)))
				}
				continue
			}
			v, ok := ev.(Term)
			if !ok {
				sfail("preserves %s: only scalar and pointer expressions are supported", cl.Src)
			}
			if when == "before" {
				st.ghost[key] = v
			} else if saved, have := st.ghost[key]; have {
				e.assumed["call "+callee+" in "+displayKey(fr.fn)+": assumed to preserve "+cl.Src] = true
				st.Assume(Eq(saved, v))
			}
		}
	}
	for _, h := range fr.contract.Ghost {
		if h.When != when {
			continue
		}
		if !matches(h) {
			continue
		}
		vars := map[string]specVal{}
		var ats []types.Type
		if c.IsInvoke() {
			ats = append(ats, c.Value.Type())
		}
		for _, a := range c.Args {
			ats = append(ats, a.Type())
		}
		for i, a := range args {
			var t types.Type
			if i < len(ats) {
				t = ats[i]
			}
			vars[fmt.Sprintf("arg%d", i)] = specVal{a, t}
		}
		sig := c.Signature()
		for i, r := range res {
			var t types.Type
			if i < sig.Results().Len() {
				t = sig.Results().At(i).Type()
			}
			vars[fmt.Sprintf("res%d", i)] = specVal{r, t}
		}
		for _, cl := range h.Assert {
			cnd := e.evalClause(st, fr, cl, vars)
			e.Assert(st, fr, "call("+when+" "+h.Callee+")", cl.Label, cnd)
			st.Assume(cnd)
		}
		for _, cl := range h.Assume {
			st.Assume(e.evalClause(st, fr, cl, vars))
		}
		for _, gs := range h.Sets {
			e.setGhost(st, fr, gs, vars)
		}
	}
}

// setGhost evaluates a ghost assignment in the context of the frame.
func (e *Engine) setGhost(st *State, fr *Frame, gs GhostSet, vars map[string]specVal) {
	env := &SpecEnv{e: e, st: st, fr: fr, vars: map[string]specVal{}, oldHeap: fr.oldHeap, oldNext: fr.oldNext, pkg: pkgPathOf(fr.fn)}
	for k, v := range vars {
		env.vars[k] = v
	}
	v := env.eval(gs.E)
	t, ok := v.v.(Term)
	if !ok {
		sfail("ghost variable %s: only scalar values are supported", gs.Name)
	}
	st.ghost["g!"+gs.Name] = t
}

// ---------------------------------------------------------------------------------------------
// Contracts at call sites

func resultNames(fn *ssa.Function) []string {
	sig := fn.Signature
	n := sig.Results().Len()
	out := make([]string, n)
	for i := 0; i < n; i++ {
		nm := sig.Results().At(i).Name()
		if nm == "" || nm == "_" {
			clash := false
			for _, p := range fn.Params {
				if p.Name() == "ret" {
					clash = true
				}
			}
			if n == 1 && !clash {
				nm = "ret"
			} else {
				nm = fmt.Sprintf("ret%d", i)
			}
		}
		out[i] = nm
	}
	return out
}

func (e *Engine) contractEnv(st *State, callee *ssa.Function, args []Value, res []Value, oldHeap map[string]Term, oldNext Term, bind ...Value) *SpecEnv {
	env := &SpecEnv{e: e, st: st, vars: map[string]specVal{}, oldHeap: oldHeap, oldNext: oldNext, pkg: pkgPathOf(callee), callSite: true}
	// a pseudo frame gives access to package constants
	env.fr = &Frame{fn: callee, vals: map[ssa.Value]Value{}, names: map[string]ssa.Value{}, nameAddr: map[string]bool{}, nameOver: map[string]Value{}}
	for i, p := range callee.Params {
		if i < len(args) {
			env.vars[p.Name()] = specVal{args[i], p.Type()}
		}
	}
	// a closure's contract may mention the variables it captured
	for i, fv := range callee.FreeVars {
		if i < len(bind) {
			env.fr.vals[fv] = bind[i]
		}
	}
	if res != nil {
		names := resultNames(callee)
		for i, r := range res {
			env.vars[names[i]] = specVal{r, callee.Signature.Results().At(i).Type()}
			if _, clash := env.vars["ret"]; len(res) == 1 && !clash {
				env.vars["ret"] = specVal{r, callee.Signature.Results().At(i).Type()}
			}
		}
	}
	return env
}

func (e *Engine) applyContract(st *State, fr *Frame, site ssa.Instruction, callee *ssa.Function, ct *Contract, args []Value, k cont, bind ...Value) {
	ck := displayKey(callee)
	siteName := ""
	if site != nil {
		siteName = fr.sites[site]
	}
	if ct.Trusted {
		e.assumed["trusted contract (body not verified): "+ck] = true
	}
	if ct.AssumeFrame {
		e.assumed["assumed frame (modifies clause used at call sites, not checked on the body): "+ck] = true
	}
	// implicit precondition: non-nil pointer receiver
	if callee.Signature.Recv() != nil && len(args) > 0 {
		if p, ok := args[0].(VPtr); ok {
			e.Assert(st, fr, "pre("+ck+")", "recv!=nil@"+siteName, Neq(p.Ref, TZero))
		}
	}
	env := e.contractEnv(st, callee, args, nil, nil, Term{}, bind...)
	for _, cl := range ct.Requires {
		c := env.Bool(cl.E)
		e.Assert(st, fr, "pre("+ck+")", cl.Label+"@"+siteName, c)
		st.Assume(c)
	}
	if ct.ModAll || len(ct.Modifies) > 0 {
		for _, a := range args {
			st.escape(a)
		}
	}
	oldHeap := copyHeap(st.heap)
	oldEpoch := st.epoch
	oldNext := st.next
	// frame
	frameless := ct.NoFrame || (len(ct.Ensures) == 0 && len(ct.Modifies) == 0 && !ct.Pure)
	if ct.ModAll || frameless {
		// no frame promised (and none checked on the callee): everything may have changed
		for _, a := range args {
			st.escape(a)
		}
		e.havocAllHeap(st, "modifies *")
	} else {
		for _, m := range ct.Modifies {
			e.havocLocation(st, env, m)
		}
	}
	res := e.freshResults(st, callee.Signature, shortName(ck))
	env2 := e.contractEnv(st, callee, args, res, oldHeap, oldNext, bind...)
	_ = oldEpoch
	for _, cl := range ct.Ensures {
		st.Assume(env2.Bool(cl.E))
	}
	k(st, res)
}

// havocLocation havocs the location denoted by a modifies expression:
//   p.f   field f of the object p points to       x[*] all elements of slice x
//   p.*   (written as all(p)) the whole object     m[*] map contents
func (e *Engine) havocLocation(st *State, env *SpecEnv, m Expr) {
	switch n := m.(type) {
	case ECall:
		if n.Fn == "all" || n.Fn == "elems" {
			v := env.eval(n.Args[0])
			switch x := v.v.(type) {
			case VSlice:
				et := v.t.Underlying().(*types.Slice).Elem()
				e.havocObject(st, et, x.Arr)
			case VPtr:
				if x.ArrLen < 0 && len(x.Path) == 0 {
					e.havocCell(st, x.Root, x.Ref, x.Idx)
				} else {
					e.havocObject(st, x.Root, x.Ref)
				}
			case Term:
				if mt, ok := v.t.Underlying().(*types.Map); ok {
					e.havocMap(st, mt, x)
				}
			default:
				sfail("modifies all(%T)", v.v)
			}
			return
		}
	case ESel, EIndex, EIdent:
		p, t := env.addrOf(m)
		val := e.freshValue(st, t, "mod")
		for _, f := range rangeFacts(val, t) {
			st.Assume(f)
		}
		e.storePtr(st, p, val)
		return
	}
	sfail("unsupported modifies clause %v", m)
}

// modifiedCells returns, per heap component, the cells a contract allows to change.
type modCell struct {
	ref   Term
	idx   Term // zero Term: whole object
	whole bool
}

// ---------------------------------------------------------------------------------------------
// Builtins

func (e *Engine) execBuiltin(st *State, fr *Frame, site ssa.Instruction, b *ssa.Builtin, c *ssa.CallCommon, args []Value) []Value {
	switch b.Name() {
	case "len":
		switch x := args[0].(type) {
		case VSlice:
			return []Value{x.Len}
		case VStr:
			return []Value{strLen(x)}
		case VArr:
			return []Value{IntLit(x.N)}
		case VPtr:
			if x.ArrLen >= 0 {
				return []Value{IntLit(x.ArrLen)}
			}
		case Term:
			switch mt := under(c.Args[0].Type()).(type) {
			case *types.Map:
				_, card, _ := e.mapHeaps(mt)
				h := e.heapGet(st, card.name, card.sort)
				r := Select(h, x)
				st.Assume(Ge(r, TZero))
				return []Value{r}
			case *types.Chan:
				r := e.sym.Fresh("chanlen", SInt)
				st.Assume(Ge(r, TZero))
				return []Value{r}
			}
		}
	case "cap":
		switch x := args[0].(type) {
		case VSlice:
			return []Value{x.Cap}
		case VArr:
			return []Value{IntLit(x.N)}
		case Term:
			r := e.sym.Fresh("chancap", SInt)
			st.Assume(Ge(r, TZero))
			return []Value{r}
		}
	case "append":
		return []Value{e.builtinAppend(st, fr, site, c, args)}
	case "copy":
		return []Value{e.builtinCopy(st, c, args)}
	case "delete":
		mt := under(c.Args[0].Type()).(*types.Map)
		e.mapDelete(st, mt, args[0].(Term), args[1])
		return nil
	case "close":
		ch := args[0].(Term)
		e.Assert(st, fr, "close", fr.sites[site]+":nonnil", Neq(ch, TZero))
		e.Assert(st, fr, "close", fr.sites[site]+":notclosed", Not(e.chanClosed(st, ch, nil)))
		e.setChanClosed(st, ch)
		return nil
	case "panic":
		if !(fr.contract != nil && fr.contract.AllowPanic) {
			e.Assert(st, fr, "panic", fr.sites[site], TFalse)
		}
		st.End("panic")
		return nil
	case "min", "max":
		acc := args[0].(Term)
		for _, a := range args[1:] {
			t := a.(Term)
			if b.Name() == "min" {
				acc = Ite(Le(acc, t), acc, t)
			} else {
				acc = Ite(Ge(acc, t), acc, t)
			}
		}
		return []Value{acc}
	case "print", "println":
		return nil
	case "recover":
		return []Value{VIface{Tag: TZero, Val: TZero}}
	case "ssa:wrapnilchk":
		return []Value{args[0]}
	}
	panic(unsupported("builtin " + b.Name()))
}

// builtinAppend models append(s, elems...) where the second argument is a slice (or string).
func (e *Engine) builtinAppend(st *State, fr *Frame, site ssa.Instruction, c *ssa.CallCommon, args []Value) Value {
	s := args[0].(VSlice)
	et := under(c.Args[0].Type()).(*types.Slice).Elem()
	var src VSlice
	switch x := args[1].(type) {
	case VSlice:
		src = x
	case VStr:
		// append([]byte, string...)
		r := e.alloc(st, et, "strtmp")
		name := heapName(et, "")
		h := e.heapGet(st, name, arrOf(SArr))
		e.heapSet(st, name, Store(h, r, strData(x)))
		src = VSlice{r, TZero, strLen(x), strLen(x)}
	default:
		panic(unsupported("append of non-slice"))
	}
	newLen := Add(s.Len, src.Len)
	// The result is modelled as a fresh array holding a copy of s followed by src when the
	// capacity does not suffice, and in place otherwise. To keep the VC small the two cases are
	// merged: fits := newLen <= cap.
	fits := Le(newLen, s.Cap)
	if src.Len.S == "0" {
		// append(s) / append(s, empty...) returns s (possibly nil)
		return s
	}
	nr := e.alloc(st, et, "append")
	resArr := Ite(And(fits, Neq(s.Arr, TZero)), s.Arr, nr)
	resOff := Ite(And(fits, Neq(s.Arr, TZero)), s.Off, TZero)
	ncap := e.sym.Fresh("appcap", SInt)
	st.Assume(Ge(ncap, newLen))
	st.Assume(Le(ncap, maxLenTerm))
	resCap := Ite(And(fits, Neq(s.Arr, TZero)), s.Cap, ncap)
	// empty append of an empty source keeps the slice as is
	for _, cp := range flatten(et) {
		name := heapName(et, cp.Path)
		h := e.heapGet(st, name, arrOf(arrOf(cp.Sort)))
		oldDst := Select(h, resArr)
		// new content of the destination object
		nd := e.sym.Fresh("appdata", arrOf(cp.Sort))
		srcObj := Select(h, src.Arr)
		sObj := Select(h, s.Arr)
		q := fmt.Sprintf("(forall ((i Int)) (! (= (select %s i) (ite (and (<= %s i) (< i %s)) (select %s (+ (- i %s) %s)) (ite (and (<= %s i) (< i %s)) (select %s (+ (- i %s) %s)) (select %s i)))) :pattern ((select %s i))))",
			nd.S,
			Add(resOff, s.Len).S, Add(resOff, newLen).S, srcObj.S, Add(resOff, s.Len).S, src.Off.S,
			resOff.S, Add(resOff, s.Len).S, sObj.S, resOff.S, s.Off.S,
			oldDst.S, nd.S)
		st.Assume(Term{q, SBool})
		e.heapSet(st, name, Store(h, resArr, nd))
	}
	res := VSlice{resArr, resOff, newLen, resCap}
	return res
}

func (e *Engine) builtinCopy(st *State, c *ssa.CallCommon, args []Value) Value {
	dst := args[0].(VSlice)
	et := under(c.Args[0].Type()).(*types.Slice).Elem()
	var src VSlice
	switch x := args[1].(type) {
	case VSlice:
		src = x
	case VStr:
		r := e.alloc(st, et, "strtmp")
		name := heapName(et, "")
		h := e.heapGet(st, name, arrOf(SArr))
		e.heapSet(st, name, Store(h, r, strData(x)))
		src = VSlice{r, TZero, strLen(x), strLen(x)}
	}
	n := Ite(Le(dst.Len, src.Len), dst.Len, src.Len)
	for _, cp := range flatten(et) {
		name := heapName(et, cp.Path)
		h := e.heapGet(st, name, arrOf(arrOf(cp.Sort)))
		nd := e.sym.Fresh("copydata", arrOf(cp.Sort))
		dObj := Select(h, dst.Arr)
		sObj := Select(h, src.Arr)
		q := fmt.Sprintf("(forall ((i Int)) (! (= (select %s i) (ite (and (<= %s i) (< i %s)) (select %s (+ (- i %s) %s)) (select %s i))) :pattern ((select %s i))))",
			nd.S, dst.Off.S, Add(dst.Off, n).S, sObj.S, dst.Off.S, src.Off.S, dObj.S, nd.S)
		st.Assume(Term{q, SBool})
		e.heapSet(st, name, Store(h, dst.Arr, nd))
	}
	return n
}

// callIsPure: calls that cannot modify the heap (used when havocking loop targets).
func (e *Engine) callIsPure(fr *Frame, c *ssa.CallCommon) bool {
	if b, ok := c.Value.(*ssa.Builtin); ok {
		switch b.Name() {
		case "len", "cap", "min", "max", "print", "println":
			return true
		}
		return false
	}
	callee := c.StaticCallee()
	if callee == nil {
		name := callName(c)
		for f := fr; f != nil; f = f.caller {
			if f.contract != nil {
				if s, ok := f.contract.FnSpecs[name]; ok && s.Pure {
					return true
				}
			}
		}
		return false
	}
	name := externName(callee)
	if pureExterns[name] || knownPure[name] {
		return true
	}
	target := originOf(callee)
	if ct := e.cs.Funcs[fullKey(target)]; ct != nil && !ct.Inline {
		return !ct.ModAll && len(ct.Modifies) == 0
	}
	return false
}

var pureExterns = map[string]bool{
	"math/bits.LeadingZeros8": true, "bytes.Equal": true, "bytes.Compare": true,
	"(encoding/binary.bigEndian).Uint16": true, "(encoding/binary.bigEndian).Uint32": true, "(encoding/binary.bigEndian).Uint64": true,
	"encoding/binary.Uvarint": true, "(time.Time).IsZero": true, "(time.Time).Before": true, "(time.Time).After": true,
	"(time.Time).Equal": true, "(time.Time).Add": true, "(time.Time).Sub": true, "(time.Time).UTC": true, "time.Now": true,
	"errors.New": true, "fmt.Errorf": true, "github.com/pkg/errors.Errorf": true, "github.com/pkg/errors.New": true,
	"github.com/pkg/errors.Wrapf": true, "github.com/pkg/errors.Wrap": true,
	"(*sync.Mutex).Lock": true, "(*sync.Mutex).Unlock": true, "(*sync.RWMutex).Lock": true, "(*sync.RWMutex).Unlock": true,
	"(*sync.RWMutex).RLock": true, "(*sync.RWMutex).RUnlock": true,
}

// havocCell havocs the single element idx of heap object ref (a pointer to a struct denotes that
// element only; its sibling elements in the same object are out of its reach).
func (e *Engine) havocCell(st *State, root types.Type, ref, idx Term) {
	prefix := "A!" + heapTypeName(root) + "!"
	for _, c := range flatten(root) {
		name := heapName(root, c.Path)
		e.heapGet(st, name, arrOf(arrOf(c.Sort)))
	}
	for name, h := range st.heap {
		if strings.HasPrefix(name, prefix) {
			fresh := e.sym.Fresh("hobj", elemSort(h.Sort))
			e.typeObj(fresh, name)
			st.heap[name] = Store(h, ref, Store(Select(h, ref), idx, Select(fresh, idx)))
		}
	}
}
