package main

import (
	"fmt"
	"go/types"
	"strings"

	"golang.org/x/tools/go/ssa"
)

type heapRef struct{ name, sort string }

// keySort returns the SMT sort used for keys of type K (declaring a tuple datatype if needed).
// arrayKey: keys of a small array type with scalar elements ([32]byte identities) are encoded as
// the tuple of their elements, so that key equality is element-wise equality (an SMT array would
// also compare the unconstrained cells outside the array's bounds).
func arrayKey(k types.Type) (n int64, sort string, elem types.Type, ok bool) {
	at, isArr := norm(k).Underlying().(*types.Array)
	if !isArr || at.Len() < 1 || at.Len() > 64 {
		return 0, "", nil, false
	}
	cs := flatten(at.Elem())
	if len(cs) != 1 || cs[0].Path != "" {
		return 0, "", nil, false
	}
	return at.Len(), cs[0].Sort, at.Elem(), true
}

func (e *Engine) keySort(k types.Type) string {
	if n, es, _, ok := arrayKey(k); ok {
		name := quoteSym("Tup!" + heapTypeName(k))
		sorts := make([]string, n)
		for i := range sorts {
			sorts[i] = es
		}
		e.sym.Datatype(name, sorts)
		return name
	}
	cs := flatten(k)
	if len(cs) == 1 {
		return cs[0].Sort
	}
	name := quoteSym("Tup!" + heapTypeName(k))
	var sorts []string
	for _, c := range cs {
		sorts = append(sorts, c.Sort)
	}
	e.sym.Datatype(name, sorts)
	return name
}

func (e *Engine) keyTerm(v Value, k types.Type) Term {
	if n, _, _, ok := arrayKey(k); ok {
		if a, isArr := v.(VArr); isArr && len(a.Comps) == 1 {
			sort := e.keySort(k)
			fields := make([]Term, n)
			for i := int64(0); i < n; i++ {
				fields[i] = Select(a.Comps[0], IntLit(i))
			}
			return app(sort, "mk!"+sort, fields...)
		}
	}
	ts := toTerms(v, k)
	if len(ts) == 1 {
		return ts[0]
	}
	sort := e.keySort(k)
	return app(sort, "mk!"+sort, ts...)
}

func (e *Engine) keyFromTerm(t Term, k types.Type) Value {
	if n, es, elem, ok := arrayKey(k); ok {
		sort := e.keySort(k)
		arr := Term{"((as const (Array Int " + es + ")) " + zeroOfSort(es).S + ")", "(Array Int " + es + ")"}
		for i := int64(0); i < n; i++ {
			arr = Store(arr, IntLit(i), app(es, fmt.Sprintf("f%d!%s", i, sort), t))
		}
		return VArr{N: n, Elem: elem, Comps: []Term{arr}}
	}
	cs := flatten(k)
	if len(cs) == 1 {
		v, _ := fromTerms([]Term{t}, k)
		return v
	}
	sort := e.keySort(k)
	var ts []Term
	for i, c := range cs {
		ts = append(ts, app(c.Sort, fmt.Sprintf("f%d!%s", i, sort), t))
	}
	v, _ := fromTerms(ts, k)
	return v
}

func (e *Engine) mapHeaps(mt *types.Map) (dom, card heapRef, vals []heapRef) {
	ks := e.keySort(mt.Key())
	base := "M!" + heapTypeName(mt.Key()) + "!" + heapTypeName(mt.Elem()) + "!"
	dom = heapRef{base + "dom", arrOf("(Array " + ks + " Bool)")}
	card = heapRef{base + "card", arrOf(SInt)}
	for _, c := range flatten(mt.Elem()) {
		vals = append(vals, heapRef{base + "val" + c.Path, arrOf("(Array " + ks + " " + c.Sort + ")")})
	}
	return
}

func (e *Engine) makeMap(st *State, t types.Type) Value {
	mt := t.Underlying().(*types.Map)
	m := e.sym.Fresh("ref!map", SInt)
	st.Assume(Ge(m, st.next))
	st.Assume(Gt(m, TZero))
	st.next = Add(m, TOne)
	dom, card, _ := e.mapHeaps(mt)
	d := e.heapGet(st, dom.name, dom.sort)
	e.heapSet(st, dom.name, Store(d, m, Term{"((as const " + elemSort(dom.sort) + ") false)", elemSort(dom.sort)}))
	c := e.heapGet(st, card.name, card.sort)
	e.heapSet(st, card.name, Store(c, m, TZero))
	return m
}

func (e *Engine) mapLookup(st *State, mt *types.Map, m Term, key Value) (Value, Term) {
	dom, card, vals := e.mapHeaps(mt)
	kt := e.keyTerm(key, mt.Key())
	d := e.heapGet(st, dom.name, dom.sort)
	ok := Select(Select(d, m), kt)
	c := e.heapGet(st, card.name, card.sort)
	st.Assume(Ge(Select(c, m), TZero))
	st.Assume(Implies(ok, Ge(Select(c, m), TOne)))
	var ts []Term
	for i, vh := range vals {
		h := e.heapGet(st, vh.name, vh.sort)
		raw := Select(Select(h, m), kt)
		ts = append(ts, Ite(ok, raw, zeroOfSort(flatten(mt.Elem())[i].Sort)))
	}
	v, _ := fromTerms(ts, mt.Elem())
	return v, ok
}

func (e *Engine) mapUpdate(st *State, t types.Type, m Term, key, val Value) {
	mt := t.Underlying().(*types.Map)
	dom, card, vals := e.mapHeaps(mt)
	kt := e.keyTerm(key, mt.Key())
	d := e.heapGet(st, dom.name, dom.sort)
	had := Select(Select(d, m), kt)
	c := e.heapGet(st, card.name, card.sort)
	e.heapSet(st, card.name, Store(c, m, Add(Select(c, m), Ite(had, TZero, TOne))))
	e.heapSet(st, dom.name, Store(d, m, Store(Select(d, m), kt, TTrue)))
	ts := toTerms(val, mt.Elem())
	for i, vh := range vals {
		h := e.heapGet(st, vh.name, vh.sort)
		e.heapSet(st, vh.name, Store(h, m, Store(Select(h, m), kt, ts[i])))
	}
}

func (e *Engine) mapDelete(st *State, mt *types.Map, m Term, key Value) {
	dom, card, _ := e.mapHeaps(mt)
	kt := e.keyTerm(key, mt.Key())
	d := e.heapGet(st, dom.name, dom.sort)
	had := Select(Select(d, m), kt)
	c := e.heapGet(st, card.name, card.sort)
	st.Assume(Implies(had, Ge(Select(c, m), TOne)))
	e.heapSet(st, card.name, Store(c, m, Sub(Select(c, m), Ite(had, TOne, TZero))))
	e.heapSet(st, dom.name, Store(d, m, Store(Select(d, m), kt, TFalse)))
}

func (e *Engine) havocMap(st *State, mt *types.Map, m Term) {
	dom, card, vals := e.mapHeaps(mt)
	for _, h := range append([]heapRef{dom, card}, vals...) {
		cur := e.heapGet(st, h.name, h.sort)
		st.heap[h.name] = Store(cur, m, e.sym.Fresh("hmap", elemSort(h.sort)))
	}
	c := e.heapGet(st, card.name, card.sort)
	st.Assume(Ge(Select(c, m), TZero))
}

func (e *Engine) execLookup(st *State, fr *Frame, x *ssa.Lookup) {
	switch xt := under(x.X.Type()).(type) {
	case *types.Map:
		m := e.get(st, fr, x.X).(Term)
		v, ok := e.mapLookup(st, xt, m, e.get(st, fr, x.Index))
		for _, f := range rangeFacts(v, xt.Elem()) {
			st.Assume(f)
		}
		for _, f := range e.allocFacts(st, v, xt.Elem()) {
			st.Assume(f)
		}
		if x.CommaOk {
			fr.vals[x] = VTuple{v, ok}
		} else {
			fr.vals[x] = v
		}
	case *types.Basic:
		s := e.get(st, fr, x.X).(VStr)
		i := e.get(st, fr, x.Index).(Term)
		e.Assert(st, fr, "index", fr.sites[x], And(Le(TZero, i), Lt(i, strLen(s))))
		fr.vals[x] = Select(strData(s), i)
	default:
		panic(unsupported("Lookup on " + x.X.Type().String()))
	}
}

// VIter is a map iterator.
type VIter struct {
	M    Term
	MT   *types.Map
	Name string // ghost name of the "seen" set
}

func (e *Engine) execRange(st *State, fr *Frame, x *ssa.Range) {
	mt, ok := under(x.X.Type()).(*types.Map)
	if !ok {
		panic(unsupported("range over " + x.X.Type().String()))
	}
	m := e.get(st, fr, x.X).(Term)
	name := "iter!" + x.Name()
	ks := e.keySort(mt.Key())
	st.ghost[name] = Term{"((as const (Array " + ks + " Bool)) false)", "(Array " + ks + " Bool)"}
	st.ghost["iter!current"] = Term{name, SInt}
	fr.vals[x] = VIter{M: m, MT: mt, Name: name}
}

func (e *Engine) execNext(st *State, fr *Frame, x *ssa.Next) {
	it, ok := e.get(st, fr, x.Iter).(VIter)
	if !ok {
		panic(unsupported("Next on non-map iterator"))
	}
	mt := it.MT
	dom, _, vals := e.mapHeaps(mt)
	ks := e.keySort(mt.Key())
	seen, have := st.ghost[it.Name]
	if !have {
		seen = e.sym.Fresh("seen", "(Array "+ks+" Bool)")
	}
	okT := e.sym.Fresh("iter!ok", SBool)
	k := e.sym.Fresh("iter!key", ks)
	d := Select(e.heapGet(st, dom.name, dom.sort), it.M)
	st.Assume(Implies(okT, And(Select(d, k), Not(Select(seen, k)))))
	// exhaustion: when the iteration ends every key still present has been seen
	st.Assume(Implies(Not(okT), Term{fmt.Sprintf("(forall ((qk %s)) (=> (select %s qk) (select %s qk)))", ks, d.S, seen.S), SBool}))
	// a non-empty map has a key, and at exhaustion every key has been produced
	_, cardH, _ := e.mapHeaps(mt)
	cardT := Select(e.heapGet(st, cardH.name, cardH.sort), it.M)
	st.Assume(Implies(Not(okT), Or(Eq(cardT, TZero), Term{fmt.Sprintf("(exists ((qk %s)) (and (select %s qk) (select %s qk)))", ks, d.S, seen.S), SBool})))
	st.ghost[it.Name] = Ite(okT, Store(seen, k, TTrue), seen)
	st.ghost[it.Name+"!cur"] = k
	var ts []Term
	for _, vh := range vals {
		h := e.heapGet(st, vh.name, vh.sort)
		ts = append(ts, Select(Select(h, it.M), k))
	}
	v, _ := fromTerms(ts, mt.Elem())
	kv := e.keyFromTerm(k, mt.Key())
	for _, f := range rangeFacts(v, mt.Elem()) {
		st.Assume(Implies(okT, f))
	}
	for _, f := range rangeFacts(kv, mt.Key()) {
		st.Assume(Implies(okT, f))
	}
	fr.vals[x] = VTuple{okT, kv, v}
}

// ---------------------------------------------------------------------------------------------
// Channels (abstracted: identity + closed flag)

const chanClosedHeap = "C!closed"

func (e *Engine) chanClosed(st *State, ch Term, heap map[string]Term) Term {
	var h Term
	if heap == nil {
		h = e.heapGet(st, chanClosedHeap, SArrB)
	} else if t, ok := heap[chanClosedHeap]; ok {
		h = t
	} else {
		h = e.sym.Const("H0!"+chanClosedHeap, SArrB)
		heap[chanClosedHeap] = h
	}
	return Select(h, ch)
}

func (e *Engine) setChanClosed(st *State, ch Term) {
	h := e.heapGet(st, chanClosedHeap, SArrB)
	e.heapSet(st, chanClosedHeap, Store(h, ch, TTrue))
}

func (e *Engine) makeChan(st *State, t types.Type, size Term) Value {
	c := e.sym.Fresh("ref!chan", SInt)
	st.Assume(Ge(c, st.next))
	st.Assume(Gt(c, TZero))
	st.next = Add(c, TOne)
	h := e.heapGet(st, chanClosedHeap, SArrB)
	e.heapSet(st, chanClosedHeap, Store(h, c, TFalse))
	return c
}

func (e *Engine) ctxDone(ctx Value) Term {
	iv, ok := ctx.(VIface)
	if !ok {
		panic(unsupported("context value"))
	}
	f := e.sym.Func("ctx_done", []string{SInt, SInt}, SInt)
	return app(SInt, f, iv.Tag, iv.Val)
}

func (e *Engine) execRecv(st *State, fr *Frame, x *ssa.UnOp) {
	ch := e.get(st, fr, x.X).(Term)
	et := under(x.X.Type()).(*types.Chan).Elem()
	e.note("channel receive: the received value is unconstrained (channel contents are not modelled)")
	v := e.freshTyped(st, et, "recv")
	if x.CommaOk {
		ok := e.sym.Fresh("recvok", SBool)
		st.Assume(Implies(Not(ok), e.chanClosed(st, ch, nil)))
		if c, _, have := e.chanElemCond(st, fr, x.X, v); have {
			st.Assume(Implies(ok, c))
		}
		fr.vals[x] = VTuple{v, ok}
		return
	}
	if c, _, have := e.chanElemCond(st, fr, x.X, v); have {
		st.Assume(Or(e.chanClosed(st, ch, nil), c))
	}
	fr.vals[x] = v
}

// chanElemInv: the element predicate declared for the struct field the channel value was loaded from.
func (e *Engine) chanElemInv(ch ssa.Value) (Clause, bool) {
	u, ok := ch.(*ssa.UnOp)
	if !ok {
		return Clause{}, false
	}
	fa, ok := u.X.(*ssa.FieldAddr)
	if !ok {
		return Clause{}, false
	}
	pt, ok := under(fa.X.Type()).(*types.Pointer)
	if !ok {
		return Clause{}, false
	}
	nt, ok := pt.Elem().(*types.Named)
	if !ok || nt.Obj().Pkg() == nil {
		return Clause{}, false
	}
	ti := e.cs.TypeInvs[nt.Obj().Pkg().Path()+"."+nt.Obj().Name()]
	if ti == nil {
		return Clause{}, false
	}
	stt, ok := nt.Underlying().(*types.Struct)
	if !ok {
		return Clause{}, false
	}
	cl, ok := ti.Chans[stt.Field(fa.Field).Name()]
	return cl, ok
}

func (e *Engine) chanElemCond(st *State, fr *Frame, ch ssa.Value, v Value) (Term, string, bool) {
	cl, ok := e.chanElemInv(ch)
	if !ok {
		return Term{}, "", false
	}
	et := under(ch.Type()).(*types.Chan).Elem()
	c := e.evalClause(st, fr, cl, map[string]specVal{"x": {v, et}})
	return c, cl.Label, true
}

func (e *Engine) execSend(st *State, fr *Frame, x *ssa.Send) {
	ch := e.get(st, fr, x.Chan).(Term)
	e.Assert(st, fr, "send", fr.sites[x]+":notclosed", Not(e.chanClosed(st, ch, nil)))
	if c, label, ok := e.chanElemCond(st, fr, x.Chan, e.get(st, fr, x.X)); ok {
		e.Assert(st, fr, "send", fr.sites[x]+":"+label, c)
	}
	// what is sent is shared with whoever receives it
	st.escape(e.get(st, fr, x.X))
	e.note("channel send: modelled as a no-op on the abstract state")
}

// execSelect: non-deterministic choice among the cases; in a non-blocking select the default
// branch is only possible when no receive case is on a closed channel.
func (e *Engine) execSelect(st *State, fr *Frame, x *ssa.Select, k func(*State)) {
	n := len(x.States)
	type alt struct {
		idx int
	}
	var chans []Term
	for _, s := range x.States {
		chans = append(chans, e.get(st, fr, s.Chan).(Term))
	}
	// wake obligations
	e.wakeObligations(st, fr, x, chans)
	run := func(s *State, idx int) {
		tu := VTuple{IntLit(int64(idx)), TFalse}
		recvOk := Value(TFalse)
		for i, ss := range x.States {
			if ss.Dir != types.RecvOnly {
				continue
			}
			et := ss.Chan.Type().Underlying().(*types.Chan).Elem()
			if i == idx {
				v := e.freshTyped(s, et, "selrecv")
				ok := e.sym.Fresh("recvok", SBool)
				s.Assume(Implies(Not(ok), e.chanClosed(s, chans[i], nil)))
				if c, _, have := e.chanElemCond(s, fr, ss.Chan, v); have {
					// a value that was sent satisfies the channel's element predicate
					s.Assume(Or(e.chanClosed(s, chans[i], nil), c))
					s.Assume(Implies(ok, c))
				}
				if strings.HasPrefix(chans[i].S, "(ctx_done ") {
					// nothing is ever sent on a context's Done channel: a receive means it is closed
					s.Assume(e.chanClosed(s, chans[i], nil))
				}
				recvOk = ok
				s.ghost["recvch!"+chans[i].S] = TTrue
				tu = append(tu, v)
			} else {
				tu = append(tu, zeroValue(et))
			}
		}
		tu[1] = recvOk
		if idx >= 0 && x.States[idx].Dir == types.SendOnly {
			if c, label, have := e.chanElemCond(s, fr, x.States[idx].Chan, e.get(s, fr, x.States[idx].Send)); have {
				e.Assert(s, fr, "send", fr.sites[x]+":"+label, c)
			}
			s.Assume(Not(e.chanClosed(s, chans[idx], nil)))
			s.escape(e.get(s, fr, x.States[idx].Send))
			s.ghost["sent!"+fr.sites[x]] = TTrue
		}
		s.ghost["taken!"+fr.sites[x]] = IntLit(int64(idx))
		fr.vals[x] = tu
		k(s)
	}
	// build an n-way (or n+1-way) branch
	total := n
	if !x.Blocking {
		total++
	}
	e.paths += total - 1
	if e.paths > e.maxPaths {
		panic(unsupported("path cap exceeded"))
	}
	br := &Node{Kind: NBranch}
	st.emit(br)
	var states []*State
	for i := 0; i < total; i++ {
		kid := &Node{Kind: NAssume, T: TTrue, Parent: br}
		br.Kids = append(br.Kids, kid)
		states = append(states, st.clone(kid))
	}
	for i := 0; i < n; i++ {
		run(states[i], i)
	}
	if !x.Blocking {
		s := states[n]
		for i, ss := range x.States {
			if ss.Dir == types.RecvOnly {
				s.Assume(Not(e.chanClosed(s, chans[i], nil)))
			}
		}
		run(s, -1)
	}
	st.dead = true
}

// wakeObligations: for every blocking select of a function whose contract declares
// "requires"-like wake conditions (clauses labelled wakes:...), some receive case must be on
// a channel that is closed under that condition.
func (e *Engine) wakeObligations(st *State, fr *Frame, x *ssa.Select, chans []Term) {
	if !x.Blocking {
		return
	}
	ct := fr.contract
	if ct == nil {
		return
	}
	for _, w := range ct.Wakes {
		// "wakes closed(ch)" / "wakes done(ctx)": every blocking select of the function must be
		// woken when that channel is closed while it waits, i.e. it must have a receive case on
		// that very channel. (Whether the channel is closed at the moment the select is reached is
		// irrelevant: the close may happen later, from another goroutine.)
		var target Term
		if c, ok := w.E.(ECall); ok && (c.Fn == "closed" || c.Fn == "done") && len(c.Args) == 1 {
			env := &SpecEnv{e: e, st: st, fr: fr, vars: map[string]specVal{}, oldHeap: fr.oldHeap, oldNext: fr.oldNext, pkg: pkgPathOf(fr.fn)}
			v := env.eval(c.Args[0])
			if c.Fn == "done" {
				target = e.ctxDone(v.v)
			} else {
				target = v.v.(Term)
			}
		} else {
			sfail("wakes clause must be closed(channel) or done(ctx)")
		}
		var alts []Term
		for i, ss := range x.States {
			if ss.Dir == types.RecvOnly {
				alts = append(alts, Eq(chans[i], target))
			}
		}
		e.Assert(st, fr, "wakes", w.Label+"@select"+fr.sites[x], Or(alts...))
	}
}
