package main

import (
	"fmt"
	"go/types"
	"math/big"
	"strings"
	"sync"

	"golang.org/x/tools/go/ssa"
)

// Value is a symbolic Go value: a Term (scalar) or one of the composite kinds below.
type Value interface{}

type VSlice struct{ Arr, Off, Len, Cap Term }

// Step is one step of a pointer path: a struct field (Field != "") or an array index.
type Step struct {
	Field string
	Index Term
}

// VPtr is a pointer. The pointee lives in heap object Ref at element index Idx, inside a
// container whose element type is Root, at sub-path Path.
// ArrLen >= 0 means: this is a pointer to an array [ArrLen]Root whose elements are the heap
// elements Idx..Idx+ArrLen-1 of object Ref (Path is empty in that case).
type VPtr struct {
	Ref, Idx Term
	Root     types.Type
	Path     []Step
	ArrLen   int64
	ReadOnly bool // snapshot pointer (writes unsupported)
	NonNil   bool // known non-nil by construction (allocation, element or field address)
}

type VStruct struct {
	T *types.Struct
	F []Value
}

// VArr is an array value [N]Elem: one SMT array per flattened component of Elem.
type VArr struct {
	N     int64
	Elem  types.Type
	Comps []Term
}

type VIface struct {
	Tag, Val Term
	Dyn      Value      // statically known boxed value (may be nil)
	DynT     types.Type // its type
}

type VTuple []Value

type VFunc struct {
	Fn   *ssa.Function
	Bind []Value
	ID   Term
}

type VStr struct{ T Term } // sort Str

// Comp is one scalar component of a flattened type.
type Comp struct {
	Path string
	Sort string
	Kind string // int, bool, ref, idx, str, opaque, arr...
	T    types.Type
}

func typeName(t types.Type) string {
	s := types.TypeString(t, func(p *types.Package) string { return p.Name() })
	return s
}

func isNamed(t types.Type, pkg, name string) bool {
	n, ok := t.(*types.Named)
	if !ok {
		if a, ok2 := t.(*types.Alias); ok2 {
			return isNamed(types.Unalias(a), pkg, name)
		}
		return false
	}
	o := n.Obj()
	return o.Pkg() != nil && o.Pkg().Path() == pkg && o.Name() == name
}

// unitType: types that carry no verification-relevant state.
func unitType(t types.Type) bool {
	for _, n := range [][2]string{{"sync", "Mutex"}, {"sync", "RWMutex"}, {"sync", "WaitGroup"}, {"sync", "Map"}} {
		if isNamed(t, n[0], n[1]) {
			return true
		}
	}
	return false
}

func scalarNamed(t types.Type) (string, bool) {
	if isNamed(t, "time", "Time") {
		return SInt, true
	}
	if isNamed(t, "sync", "Once") {
		return SBool, true
	}
	return "", false
}

var flattenCache = map[types.Type][]Comp{}

var flattenMu sync.Mutex

func flatten(t types.Type) []Comp {
	flattenMu.Lock()
	c, ok := flattenCache[t]
	flattenMu.Unlock()
	if ok {
		return c
	}
	c = flatten0(t)
	flattenMu.Lock()
	flattenCache[t] = c
	flattenMu.Unlock()
	return c
}

func flatten0(t types.Type) []Comp {
	t = norm(t)
	if unitType(t) {
		return nil
	}
	if s, ok := scalarNamed(t); ok {
		return []Comp{{"", s, "opaque", t}}
	}
	switch u := t.Underlying().(type) {
	case *types.Basic:
		switch {
		case u.Info()&types.IsBoolean != 0:
			return []Comp{{"", SBool, "bool", t}}
		case u.Info()&types.IsString != 0:
			return []Comp{{"", SStr, "str", t}}
		case u.Info()&types.IsInteger != 0:
			return []Comp{{"", SInt, "int", t}}
		case u.Kind() == types.UnsafePointer:
			return []Comp{{"", SInt, "opaque", t}}
		case u.Kind() == types.UntypedNil:
			return []Comp{{"", SInt, "opaque", t}}
		default:
			// floats / complex: opaque
			return []Comp{{"", SInt, "opaque", t}}
		}
	case *types.Pointer:
		return []Comp{{".ref", SInt, "ref", t}, {".idx", SInt, "idx", t}}
	case *types.Slice:
		return []Comp{{".arr", SInt, "ref", t}, {".off", SInt, "idx", t}, {".len", SInt, "len", t}, {".cap", SInt, "len", t}}
	case *types.Map, *types.Chan:
		return []Comp{{"", SInt, "ref", t}}
	case *types.Signature:
		return []Comp{{"", SInt, "opaque", t}}
	case *types.Interface:
		if _, isTP := t.(*types.TypeParam); isTP {
			return []Comp{{"", SInt, "opaque", t}}
		}
		return []Comp{{".tag", SInt, "opaque", t}, {".val", SInt, "opaque", t}}
	case *types.Struct:
		var out []Comp
		for i := 0; i < u.NumFields(); i++ {
			f := u.Field(i)
			for _, c := range flatten(f.Type()) {
				out = append(out, Comp{"." + f.Name() + c.Path, c.Sort, c.Kind, c.T})
			}
		}
		return out
	case *types.Array:
		var out []Comp
		for _, c := range flatten(u.Elem()) {
			out = append(out, Comp{"[]" + c.Path, arrOf(c.Sort), "arr", c.T})
		}
		return out
	case *types.Tuple:
		var out []Comp
		for i := 0; i < u.Len(); i++ {
			for _, c := range flatten(u.At(i).Type()) {
				out = append(out, Comp{fmt.Sprintf("#%d%s", i, c.Path), c.Sort, c.Kind, c.T})
			}
		}
		return out
	}
	if _, ok := t.(*types.TypeParam); ok {
		return []Comp{{"", SInt, "opaque", t}}
	}
	panic(unsupported("flatten: unsupported type " + t.String()))
}

type unsupportedErr struct{ msg string }

func unsupported(msg string) unsupportedErr { return unsupportedErr{msg} }
func (u unsupportedErr) Error() string        { return u.msg }

// toTerms flattens a value of type t to its scalar components (in flatten order).
func toTerms(v Value, t types.Type) []Term {
	t = norm(t)
	if unitType(t) {
		return nil
	}
	if _, ok := scalarNamed(t); ok {
		return []Term{v.(Term)}
	}
	switch u := t.Underlying().(type) {
	case *types.Basic:
		if u.Info()&types.IsString != 0 {
			return []Term{v.(VStr).T}
		}
		return []Term{v.(Term)}
	case *types.Pointer:
		p := v.(VPtr)
		if len(p.Path) != 0 {
			panic(unsupported("interior pointer used as a first-class value"))
		}
		return []Term{p.Ref, p.Idx}
	case *types.Slice:
		s := v.(VSlice)
		return []Term{s.Arr, s.Off, s.Len, s.Cap}
	case *types.Map, *types.Chan:
		return []Term{v.(Term)}
	case *types.Signature:
		switch f := v.(type) {
		case VFunc:
			return []Term{f.ID}
		case Term:
			return []Term{f}
		}
		panic(unsupported("function value"))
	case *types.Interface:
		if _, isTP := t.(*types.TypeParam); isTP {
			return []Term{v.(Term)}
		}
		i := v.(VIface)
		return []Term{i.Tag, i.Val}
	case *types.Struct:
		s := v.(VStruct)
		var out []Term
		for i := 0; i < u.NumFields(); i++ {
			out = append(out, toTerms(s.F[i], u.Field(i).Type())...)
		}
		return out
	case *types.Array:
		return v.(VArr).Comps
	case *types.Tuple:
		tu := v.(VTuple)
		var out []Term
		for i := 0; i < u.Len(); i++ {
			out = append(out, toTerms(tu[i], u.At(i).Type())...)
		}
		return out
	}
	if _, ok := t.(*types.TypeParam); ok {
		return []Term{v.(Term)}
	}
	panic(unsupported("toTerms: " + t.String()))
}

// fromTerms rebuilds a value of type t from scalar components; returns the rest.
func fromTerms(ts []Term, t types.Type) (Value, []Term) {
	t = norm(t)
	if unitType(t) {
		return VStruct{}, ts
	}
	if _, ok := scalarNamed(t); ok {
		return ts[0], ts[1:]
	}
	switch u := t.Underlying().(type) {
	case *types.Basic:
		if u.Info()&types.IsString != 0 {
			return VStr{ts[0]}, ts[1:]
		}
		return ts[0], ts[1:]
	case *types.Pointer:
		p := VPtr{Ref: ts[0], Idx: ts[1], Root: u.Elem(), ArrLen: -1}
		if a, ok := u.Elem().Underlying().(*types.Array); ok {
			p.Root = a.Elem()
			p.ArrLen = a.Len()
		}
		return p, ts[2:]
	case *types.Slice:
		return VSlice{ts[0], ts[1], ts[2], ts[3]}, ts[4:]
	case *types.Map, *types.Chan, *types.Signature:
		return ts[0], ts[1:]
	case *types.Interface:
		if _, isTP := t.(*types.TypeParam); isTP {
			return ts[0], ts[1:]
		}
		return VIface{Tag: ts[0], Val: ts[1]}, ts[2:]
	case *types.Struct:
		s := VStruct{T: u}
		for i := 0; i < u.NumFields(); i++ {
			var f Value
			f, ts = fromTerms(ts, u.Field(i).Type())
			s.F = append(s.F, f)
		}
		return s, ts
	case *types.Array:
		n := len(flatten(u.Elem()))
		return VArr{N: u.Len(), Elem: u.Elem(), Comps: append([]Term{}, ts[:n]...)}, ts[n:]
	case *types.Tuple:
		var tu VTuple
		for i := 0; i < u.Len(); i++ {
			var f Value
			f, ts = fromTerms(ts, u.At(i).Type())
			tu = append(tu, f)
		}
		return tu, ts
	}
	if _, ok := t.(*types.TypeParam); ok {
		return ts[0], ts[1:]
	}
	panic(unsupported("fromTerms: " + t.String()))
}

func zeroOfSort(sort string) Term {
	switch sort {
	case SInt:
		return TZero
	case SBool:
		return TFalse
	case SStr:
		return Term{"str_empty", SStr}
	}
	if strings.HasPrefix(sort, "(Array ") {
		return Term{"((as const " + sort + ") " + zeroOfSort(elemSort(sort)).S + ")", sort}
	}
	panic("zeroOfSort " + sort)
}

func zeroValue(t types.Type) Value {
	var ts []Term
	for _, c := range flatten(t) {
		ts = append(ts, zeroOfSort(c.Sort))
	}
	v, _ := fromTerms(ts, t)
	return v
}

func pow2(n uint) *big.Int { return new(big.Int).Lsh(big.NewInt(1), n) }

// intRange returns the [lo,hi] range of a basic integer type and its width/signedness.
func intRange(t types.Type) (lo, hi *big.Int, width uint, signed bool, ok bool) {
	b, isB := t.Underlying().(*types.Basic)
	if !isB || b.Info()&types.IsInteger == 0 {
		return nil, nil, 0, false, false
	}
	switch b.Kind() {
	case types.Int8:
		width, signed = 8, true
	case types.Int16:
		width, signed = 16, true
	case types.Int32:
		width, signed = 32, true
	case types.Int, types.Int64, types.UntypedInt, types.UntypedRune:
		width, signed = 64, true
	case types.Uint8:
		width = 8
	case types.Uint16:
		width = 16
	case types.Uint32:
		width = 32
	case types.Uint, types.Uint64, types.Uintptr:
		width = 64
	default:
		return nil, nil, 0, false, false
	}
	if signed {
		hi = new(big.Int).Sub(pow2(width-1), big.NewInt(1))
		lo = new(big.Int).Neg(pow2(width - 1))
	} else {
		lo = big.NewInt(0)
		hi = new(big.Int).Sub(pow2(width), big.NewInt(1))
	}
	return lo, hi, width, signed, true
}

// rangeFacts returns the typing facts known for a symbolic value of type t.
func rangeFacts(v Value, t types.Type) []Term {
	var out []Term
	ts := toTerms(v, t)
	for i, c := range flatten(t) {
		x := ts[i]
		switch c.Kind {
		case "int":
			if lo, hi, _, _, ok := intRange(c.T); ok {
				out = append(out, Le(BigLit(lo), x), Le(x, BigLit(hi)))
			}
		case "len", "idx":
			out = append(out, Le(TZero, x), Le(x, maxLenTerm))
		case "ref":
			out = append(out, Le(TZero, x))
		case "str":
			out = append(out, Le(TZero, app(SInt, "slen", x)), Le(app(SInt, "slen", x), maxLenTerm))
		}
	}
	// slice header consistency
	collectSliceFacts(v, t, &out)
	return out
}

var maxLenTerm = Term{"1099511627776", SInt} // 2^40: global bound on lengths (assumption)

func collectSliceFacts(v Value, t types.Type, out *[]Term) {
	switch u := t.Underlying().(type) {
	case *types.Slice:
		s, ok := v.(VSlice)
		if ok {
			*out = append(*out, Le(s.Len, s.Cap), Implies(Eq(s.Arr, TZero), And(Eq(s.Len, TZero), Eq(s.Cap, TZero), Eq(s.Off, TZero))))
		}
	case *types.Struct:
		if unitType(t) {
			return
		}
		if _, ok := scalarNamed(t); ok {
			return
		}
		s, ok := v.(VStruct)
		if ok {
			for i := 0; i < u.NumFields(); i++ {
				collectSliceFacts(s.F[i], u.Field(i).Type(), out)
			}
		}
	}
}

func isUnsigned(t types.Type) bool {
	b, ok := t.Underlying().(*types.Basic)
	return ok && b.Info()&types.IsUnsigned != 0
}
func isInteger(t types.Type) bool {
	b, ok := t.Underlying().(*types.Basic)
	return ok && b.Info()&types.IsInteger != 0
}
func isString(t types.Type) bool {
	b, ok := t.Underlying().(*types.Basic)
	return ok && b.Info()&types.IsString != 0
}
func isBoolean(t types.Type) bool {
	b, ok := t.Underlying().(*types.Basic)
	return ok && b.Info()&types.IsBoolean != 0
}
