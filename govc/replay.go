package main

// Replay of solver counterexamples against the real code (in-package test via go test -overlay).

// tryReplay attempts to replay the model of a refuted obligation on the real code.
// It returns the path of the replay artefact (may be empty) and whether the failure reproduced.
func tryReplay(e *Engine, r *FuncResult, ob *Obligation) (string, bool) {
	return "", false
}

func runBoundedOne(name, tier string, seed int) BoundedResult {
	return BoundedResult{Name: name, Error: "unknown bounded stand-in"}
}
