package main

import (
	"bytes"
	"encoding/json"
	"fmt"
	"go/types"
	"os"
	"os/exec"
	"path/filepath"
	"strings"
	"time"

	"golang.org/x/tools/go/ssa"
)

// Replay of solver counterexamples against the real code: the model of a refuted obligation is
// turned into Go literals, and the real function is called on them from an in-package test that
// is injected with `go test -overlay` (nothing is written into /repo).

type ReplayArtefact struct {
	Property   string   `json:"property,omitempty"`
	Obligation string   `json:"obligation"`
	Function   string   `json:"function"`
	PkgDir     string   `json:"pkg_dir"`
	TestSource string   `json:"test_source"`
	Inputs     []string `json:"inputs"`
	Expect     string   `json:"expect"`
	Observed   string   `json:"observed"`
	Confirmed  bool     `json:"confirmed"`
	Note       string   `json:"note,omitempty"`
}

var panicKinds = map[string]bool{"index": true, "slice": true, "deref": true, "div": true, "panic": true, "make": true, "conv": true, "assert": true, "mapwrite": true, "close": true, "shift": true}

// modelQuery runs the VC again with extra assertions and returns the values of the given terms.
func modelQuery(script string, extra []string, terms []string) (map[string]string, bool) {
	// strip the trailing (check-sat)(get-model)
	i := strings.LastIndex(script, "(check-sat)")
	if i < 0 {
		return nil, false
	}
	var sb strings.Builder
	sb.WriteString(script[:i])
	for _, x := range extra {
		sb.WriteString("(assert " + x + ")\n")
	}
	sb.WriteString("(check-sat)\n")
	if len(terms) > 0 {
		sb.WriteString("(get-value (" + strings.Join(terms, " ") + "))\n")
	}
	dir, _ := os.MkdirTemp("", "govc-replay")
	defer os.RemoveAll(dir)
	file := filepath.Join(dir, "q.smt2")
	os.WriteFile(file, []byte(sb.String()), 0o644)
	for _, solver := range [][]string{{"z3-new", "-T:20"}, {"cvc5", "--tlimit=20000", "--produce-models"}, {"z3", "-T:20"}} {
		cmd := exec.Command(solver[0], append(solver[1:], file)...)
		var buf bytes.Buffer
		cmd.Stdout = &buf
		cmd.Run()
		out := buf.String()
		lines := strings.SplitN(out, "\n", 2)
		if strings.TrimSpace(lines[0]) != "sat" {
			if strings.TrimSpace(lines[0]) == "unsat" {
				return nil, false
			}
			continue
		}
		vals := map[string]string{}
		if len(lines) > 1 && len(terms) > 0 {
			body := strings.TrimSpace(lines[1])
			if len(body) >= 2 {
				for _, pair := range splitTop(body[1 : len(body)-1]) {
					kv := splitTop(pair[1 : len(pair)-1])
					if len(kv) == 2 {
						vals[kv[0]] = kv[1]
					}
				}
			}
		}
		return vals, true
	}
	return nil, false
}

func modelInt(s string) (int64, bool) {
	t := Term{strings.Join(strings.Fields(s), " "), SInt}
	n, ok := t.IsLit()
	if !ok || !n.IsInt64() {
		return 0, false
	}
	return n.Int64(), true
}

// litBuilder builds Go literals for the entry values of parameters from the model.
type litBuilder struct {
	e      *Engine
	script string
	fixed  []string // assertions pinning already-read scalars
	pkg    *types.Package
	notes  []string
	fail   string
}

func (lb *litBuilder) values(terms []Term) ([]string, bool) {
	if len(terms) == 0 {
		return nil, true
	}
	var ts []string
	for _, t := range terms {
		ts = append(ts, t.S)
	}
	// symbols that the VC did not need (and hence did not declare) are unconstrained: declare them
	toks := map[string]bool{}
	for _, t := range ts {
		tokensOf(t, toks)
	}
	var extraDecls []string
	for tk := range toks {
		if d, ok := lb.e.sym.decls[tk]; ok && len(d.Args) == 0 {
			if !strings.Contains(lb.script, "(declare-const "+tk+" ") {
				extraDecls = append(extraDecls, fmt.Sprintf("(declare-const %s %s)", tk, d.Sort))
			}
		}
	}
	script := lb.script
	if len(extraDecls) > 0 {
		i := strings.LastIndex(script, "(assert ")
		script = script[:i] + strings.Join(extraDecls, "\n") + "\n" + script[i:]
		lb.script = script
	}
	vals, ok := modelQuery(lb.script, lb.fixed, ts)
	if !ok {
		return nil, false
	}
	out := make([]string, len(terms))
	for i, t := range terms {
		v, have := vals[t.S]
		if !have {
			// solvers may normalise the printed term; fall back to positional lookup is impossible, so fail
			return nil, false
		}
		out[i] = v
		lb.fixed = append(lb.fixed, fmt.Sprintf("(= %s %s)", t.S, v))
	}
	return out, true
}

func (lb *litBuilder) typeStr(t types.Type) string {
	return types.TypeString(t, func(p *types.Package) string {
		if p == lb.pkg {
			return ""
		}
		return p.Name()
	})
}

const maxReplayLen = 4096

// lit renders value v of type t (in the initial heap H0) as a Go expression.
func (lb *litBuilder) lit(v Value, t types.Type, depth int) string {
	if lb.fail != "" {
		return "nil"
	}
	if depth > 4 {
		lb.fail = "value nesting too deep for replay"
		return "nil"
	}
	if _, isTP := t.(*types.TypeParam); isTP {
		lb.fail = "type parameter typed input cannot be replayed"
		return "nil"
	}
	if isNamed(t, "time", "Time") {
		vals, ok := lb.values([]Term{v.(Term)})
		if !ok {
			lb.fail = "model value unavailable"
			return "nil"
		}
		n, _ := modelInt(vals[0])
		if n == 0 {
			return "time.Time{}"
		}
		return fmt.Sprintf("time.Time{}.Add(time.Duration(%d))", n)
	}
	switch u := t.Underlying().(type) {
	case *types.Basic:
		if u.Info()&types.IsString != 0 {
			s := v.(VStr)
			vals, ok := lb.values([]Term{strLen(s)})
			if !ok {
				lb.fail = "model value unavailable"
				return `""`
			}
			n, _ := modelInt(vals[0])
			if n > maxReplayLen {
				lb.fail = fmt.Sprintf("model needs a string of length %d", n)
				return `""`
			}
			var terms []Term
			for i := int64(0); i < n; i++ {
				terms = append(terms, Select(strData(s), IntLit(i)))
			}
			bs, ok := lb.values(terms)
			if !ok {
				lb.fail = "model value unavailable"
				return `""`
			}
			var sb strings.Builder
			sb.WriteString("string([]byte{")
			for _, b := range bs {
				x, _ := modelInt(b)
				sb.WriteString(fmt.Sprintf("%d,", uint8(x)))
			}
			sb.WriteString("})")
			return lb.conv(t, sb.String())
		}
		vals, ok := lb.values([]Term{v.(Term)})
		if !ok {
			lb.fail = "model value unavailable"
			return "0"
		}
		if u.Info()&types.IsBoolean != 0 {
			return lb.conv(t, vals[0])
		}
		n, ok := Term{strings.Join(strings.Fields(vals[0]), " "), SInt}.IsLit()
		if !ok {
			lb.fail = "non-literal model value " + vals[0]
			return "0"
		}
		if lo, hi, w, signed, ok := intRange(t); ok && (n.Cmp(lo) < 0 || n.Cmp(hi) > 0) {
			// heap cells never read directly are unconstrained in the model: reduce to the type's range
			n = new(bigInt).Mod(n, pow2(w))
			if signed && n.Cmp(hi) > 0 {
				n.Sub(n, pow2(w))
			}
		}
		return lb.conv(t, n.String())
	case *types.Slice:
		s := v.(VSlice)
		vals, ok := lb.values([]Term{s.Arr, s.Off, s.Len, s.Cap})
		if !ok {
			lb.fail = "model value unavailable"
			return "nil"
		}
		arr, _ := modelInt(vals[0])
		n, _ := modelInt(vals[2])
		cp, _ := modelInt(vals[3])
		if arr == 0 {
			return "nil"
		}
		if n > maxReplayLen || cp > 4*maxReplayLen {
			lb.fail = fmt.Sprintf("model needs a slice of length %d / capacity %d", n, cp)
			return "nil"
		}
		var elems []string
		for i := int64(0); i < n; i++ {
			p := elemPtr(s, IntLit(i), u.Elem())
			ev := lb.e.loadPtr(&State{heap: map[string]Term{}, ghost: map[string]Term{}}, p, map[string]Term{})
			elems = append(elems, lb.lit(ev, u.Elem(), depth+1))
		}
		ts := lb.typeStr(t)
		lit := fmt.Sprintf("%s{%s}", lb.sliceLitType(t), strings.Join(elems, ", "))
		if cp > n {
			// reproduce the capacity
			lit = fmt.Sprintf("append(make(%s, 0, %d), %s...)", lb.sliceLitType(t), cp, lit)
		}
		if _, named := t.(*types.Named); named {
			lit = ts + "(" + lit + ")"
		}
		return lit
	case *types.Pointer:
		p := v.(VPtr)
		vals, ok := lb.values([]Term{p.Ref})
		if !ok {
			lb.fail = "model value unavailable"
			return "nil"
		}
		ref, _ := modelInt(vals[0])
		if ref == 0 {
			return "nil"
		}
		pt := u.Elem()
		if p.ArrLen >= 0 {
			at := pt.Underlying().(*types.Array)
			var elems []string
			for i := int64(0); i < at.Len(); i++ {
				ep := VPtr{Ref: p.Ref, Idx: Add(p.Idx, IntLit(i)), Root: p.Root, ArrLen: -1}
				ev := lb.e.loadPtr(&State{heap: map[string]Term{}, ghost: map[string]Term{}}, ep, map[string]Term{})
				elems = append(elems, lb.lit(ev, at.Elem(), depth+1))
			}
			return fmt.Sprintf("&%s{%s}", lb.typeStr(pt), strings.Join(elems, ", "))
		}
		pv := lb.e.loadPtr(&State{heap: map[string]Term{}, ghost: map[string]Term{}}, p, map[string]Term{})
		inner := lb.lit(pv, pt, depth+1)
		if _, isStruct := pt.Underlying().(*types.Struct); isStruct && strings.HasPrefix(inner, lb.typeStr(pt)+"{") {
			return "&" + inner
		}
		return fmt.Sprintf("func() *%s { x := %s; return &x }()", lb.typeStr(pt), inner)
	case *types.Struct:
		if unitType(t) {
			return lb.typeStr(t) + "{}"
		}
		s := v.(VStruct)
		var fs []string
		for i := 0; i < u.NumFields(); i++ {
			f := u.Field(i)
			if unitType(f.Type()) {
				continue
			}
			switch f.Type().Underlying().(type) {
			case *types.Chan, *types.Signature, *types.Interface, *types.Map:
				lb.notes = append(lb.notes, "field "+f.Name()+" left zero (not replayable)")
				continue
			}
			fs = append(fs, fmt.Sprintf("%s: %s", f.Name(), lb.lit(s.F[i], f.Type(), depth+1)))
		}
		return fmt.Sprintf("%s{%s}", lb.typeStr(t), strings.Join(fs, ", "))
	case *types.Array:
		a := v.(VArr)
		var elems []string
		for i := int64(0); i < a.N; i++ {
			var ts []Term
			for _, c := range a.Comps {
				ts = append(ts, Select(c, IntLit(i)))
			}
			ev, _ := fromTerms(ts, a.Elem)
			elems = append(elems, lb.lit(ev, a.Elem, depth+1))
		}
		return fmt.Sprintf("%s{%s}", lb.typeStr(t), strings.Join(elems, ", "))
	case *types.Interface:
		if isNamed(t, "context", "Context") {
			return "context.Background()"
		}
		iv, _ := v.(VIface)
		vals, ok := lb.values([]Term{iv.Tag})
		if ok {
			if n, _ := modelInt(vals[0]); n == 0 {
				return "nil"
			}
		}
		lb.fail = "interface typed input cannot be replayed"
		return "nil"
	}
	lb.fail = "input of type " + t.String() + " cannot be replayed"
	return "nil"
}

func (lb *litBuilder) sliceLitType(t types.Type) string {
	return "[]" + lb.typeStr(t.Underlying().(*types.Slice).Elem())
}

func (lb *litBuilder) conv(t types.Type, lit string) string {
	return lb.typeStr(t) + "(" + lit + ")"
}

// tryReplay attempts to replay the model of a refuted obligation on the real code.
func tryReplay(e *Engine, r *FuncResult, ob *Obligation) (rp string, confirmed bool) {
	if ob.Status != "refuted" || ob.File == "" {
		return "", false
	}
	// building a replay is best effort: a model the literal builder cannot turn into Go values
	// must not take the check down (the violation is then reported without a replayed input)
	defer func() {
		if x := recover(); x != nil {
			rp, confirmed = fmt.Sprintf("replay could not be built: %v", x), false
		}
	}()
	fn, ok := e.funcs[r.Key]
	if !ok || fn.Parent() != nil {
		return "", false
	}
	art := &ReplayArtefact{Obligation: ob.Name, Function: r.Display}
	path := filepath.Join(verifRoot, "replays", "tests", sanitize(ob.Name)+".json")
	os.MkdirAll(filepath.Dir(path), 0o755)
	save := func() {
		data, _ := json.MarshalIndent(art, "", " ")
		os.WriteFile(path, data, 0o644)
	}
	kind := kindOf(ob.Name)
	isPanicKind := panicKinds[kind] || strings.HasPrefix(kind, "pre(")
	if !isPanicKind {
		art.Note = "obligation kind " + kind + " has no executable oracle yet; not replayed"
		save()
		return path, false
	}
	if fn.TypeParams().Len() > 0 || (fn.Signature.Recv() != nil && recvHasTypeParams(fn)) {
		art.Note = "generic function: replay needs an instantiation; not replayed"
		save()
		return path, false
	}
	scriptBytes, err := os.ReadFile(ob.File)
	if err != nil {
		return "", false
	}
	// re-create the entry values: the VC names them in!<param><comp>!<n>; regenerate by running the
	// same deterministic naming: parse the declared constants from the script.
	script := string(scriptBytes)
	params := entryValuesFromScript(e, fn, script)
	if params == nil {
		art.Note = "could not recover the entry values from the VC"
		save()
		return path, false
	}
	lb := &litBuilder{e: e, script: script, pkg: fn.Pkg.Pkg}
	// prefer small inputs
	var small []string
	for i, p := range fn.Params {
		switch v := params[i].(type) {
		case VSlice:
			small = append(small, fmt.Sprintf("(<= %s 64)", v.Len.S), fmt.Sprintf("(<= %s 64)", v.Cap.S))
		case VStr:
			small = append(small, fmt.Sprintf("(<= %s 64)", strLen(v).S))
		}
		_ = p
	}
	if _, ok := modelQuery(script, small, nil); ok {
		lb.fixed = append(lb.fixed, small...)
	}
	var args []string
	for i, p := range fn.Params {
		args = append(args, lb.lit(params[i], p.Type(), 0))
		if lb.fail != "" {
			art.Note = "input not replayable: " + lb.fail
			save()
			return path, false
		}
	}
	art.Inputs = args
	// build the test
	var sb strings.Builder
	pkgName := fn.Pkg.Pkg.Name()
	sb.WriteString("package " + pkgName + "\n\nimport (\n\t\"context\"\n\t\"fmt\"\n\t\"testing\"\n\t\"time\"\n)\n\n")
	sb.WriteString("var _ = context.Background\nvar _ = time.Now\n\n")
	sb.WriteString("func TestVerifReplay(t *testing.T) {\n")
	sb.WriteString("\tdefer func() {\n\t\tif r := recover(); r != nil {\n\t\t\tfmt.Printf(\"REPLAY-PANIC: %v\\n\", r)\n\t\t\tt.Fatalf(\"panic: %v\", r)\n\t\t}\n\t}()\n")
	call := ""
	if fn.Signature.Recv() != nil {
		sb.WriteString(fmt.Sprintf("\trecv := %s\n", args[0]))
		for i, a := range args[1:] {
			sb.WriteString(fmt.Sprintf("\ta%d := %s\n", i, a))
		}
		var names []string
		for i := range args[1:] {
			names = append(names, fmt.Sprintf("a%d", i))
		}
		if fn.Signature.Variadic() && len(names) > 0 {
			names[len(names)-1] += "..."
		}
		call = fmt.Sprintf("recv.%s(%s)", fn.Name(), strings.Join(names, ", "))
	} else {
		var names []string
		for i, a := range args {
			sb.WriteString(fmt.Sprintf("\ta%d := %s\n", i, a))
			names = append(names, fmt.Sprintf("a%d", i))
		}
		if fn.Signature.Variadic() && len(names) > 0 {
			names[len(names)-1] += "..."
		}
		call = fmt.Sprintf("%s(%s)", fn.Name(), strings.Join(names, ", "))
	}
	sb.WriteString("\t" + call + "\n")
	sb.WriteString("\tfmt.Println(\"REPLAY-RETURNED\")\n}\n")
	art.TestSource = sb.String()
	rel, _ := filepath.Rel(modulePath, fn.Pkg.Pkg.Path())
	art.PkgDir = filepath.Join(repoRoot, rel)
	art.Expect = "run-time panic (" + kind + ")"
	art.Observed, art.Confirmed = runReplayTest(art)
	save()
	return path, art.Confirmed
}

func recvHasTypeParams(fn *ssa.Function) bool {
	t := fn.Signature.Recv().Type()
	if p, ok := t.(*types.Pointer); ok {
		t = p.Elem()
	}
	if n, ok := t.(*types.Named); ok {
		return n.TypeParams().Len() > 0 || n.TypeArgs().Len() > 0
	}
	return false
}

// entryValuesFromScript rebuilds the symbolic entry values of the parameters: they are the
// constants in!<name><comp>!<k> declared in the VC, numbered in creation order.
func entryValuesFromScript(e *Engine, fn *ssa.Function, script string) []Value {
	decl := map[string]string{} // "in!x.arr" -> full symbol
	for _, line := range strings.Split(script, "\n") {
		if !strings.HasPrefix(line, "(declare-const ") {
			continue
		}
		f := splitTop(line[1 : len(line)-1])
		if len(f) < 3 {
			continue
		}
		sym := f[1]
		bare := strings.Trim(sym, "|")
		if !strings.HasPrefix(bare, "in!") {
			continue
		}
		k := strings.LastIndex(bare, "!")
		decl[bare[:k]] = sym
	}
	var out []Value
	for _, p := range fn.Params {
		var ts []Term
		for _, c := range flatten(p.Type()) {
			sym, ok := decl["in!"+p.Name()+c.Path]
			if !ok {
				// the component does not occur in the VC: any value will do
				ts = append(ts, zeroOfSort(c.Sort))
				continue
			}
			ts = append(ts, Term{sym, c.Sort})
		}
		v, _ := fromTerms(ts, p.Type())
		out = append(out, v)
	}
	return out
}

func runReplayTest(art *ReplayArtefact) (string, bool) {
	dir, err := os.MkdirTemp("", "govc-replay")
	if err != nil {
		return "cannot create temp dir", false
	}
	defer os.RemoveAll(dir)
	testFile := filepath.Join(dir, "zz_verif_replay_test.go")
	os.WriteFile(testFile, []byte(art.TestSource), 0o644)
	ov := map[string]map[string]string{"Replace": {filepath.Join(art.PkgDir, "zz_verif_replay_test.go"): testFile}}
	ovData, _ := json.Marshal(ov)
	ovFile := filepath.Join(dir, "overlay.json")
	os.WriteFile(ovFile, ovData, 0o644)
	cmd := exec.Command("go", "test", "-overlay", ovFile, "-vet=off", "-count=1", "-timeout", "60s", "-run", "TestVerifReplay$", ".")
	cmd.Dir = art.PkgDir
	cmd.Env = append(os.Environ(), "GOFLAGS=-mod=mod", "GOPROXY=off", "GOSUMDB=off", "GOTOOLCHAIN=local")
	var buf bytes.Buffer
	cmd.Stdout = &buf
	cmd.Stderr = &buf
	done := make(chan error, 1)
	go func() { done <- cmd.Run() }()
	select {
	case <-done:
	case <-time.After(120 * time.Second):
		if cmd.Process != nil {
			cmd.Process.Kill()
		}
		return "replay timed out", false
	}
	out := buf.String()
	switch {
	case strings.Contains(out, "REPLAY-PANIC:"):
		i := strings.Index(out, "REPLAY-PANIC:")
		line := strings.SplitN(out[i:], "\n", 2)[0]
		return line, true
	case strings.Contains(out, "REPLAY-RETURNED"):
		return "the real function returned normally on the model's input", false
	}
	return "replay did not run: " + truncate(out, 1500), false
}

// cmdReplay re-runs a stored replay artefact.
func cmdReplay(args []string) int {
	if len(args) < 1 {
		fmt.Fprintln(os.Stderr, "usage: govc replay <path>")
		return 2
	}
	var rep map[string]interface{}
	if err := loadJSON(args[0], &rep); err != nil {
		fmt.Fprintln(os.Stderr, err)
		return 2
	}
	// a violation file may point to a test artefact
	if d, ok := rep["detail"].(string); ok {
		if i := strings.Index(d, "replay: "); i >= 0 {
			p := strings.TrimSpace(strings.SplitN(d[i+len("replay: "):], "\n", 2)[0])
			return cmdReplay([]string{p})
		}
		fmt.Println("no executable replay stored for this violation; obligation:", rep["obligation"])
		fmt.Println(d)
		return 0
	}
	if cmdStr, ok := rep["replay_cmd"].(string); ok && cmdStr != "" {
		c := exec.Command("sh", "-c", cmdStr)
		c.Stdout = os.Stdout
		c.Stderr = os.Stderr
		if err := c.Run(); err != nil {
			return 1
		}
		return 0
	}
	var art ReplayArtefact
	if err := loadJSON(args[0], &art); err != nil || art.TestSource == "" {
		fmt.Println("no executable replay in", args[0], art.Note)
		return 0
	}
	obs, confirmed := runReplayTest(&art)
	fmt.Println(obs)
	if confirmed {
		fmt.Println("replay reproduces the failure on the real code")
		return 1
	}
	return 0
}

// runBoundedOne runs one bounded stand-in: name = "<dir under /verif/bounded>:<package dir in the
// repo>:<harness file>[:<package name to substitute for PKG>]". The harness is an in-package test
// injected through go test -overlay (nothing is written into the repository); it prints one
// "BOUNDED-FAIL class=.. input=.. observed=.." line per failing case and "BOUNDED cases=N".
func runBoundedOne(name, tier string, seed int) BoundedResult {
	res := BoundedResult{Name: name}
	parts := strings.Split(name, ":")
	if len(parts) < 3 {
		res.Error = "malformed bounded stand-in name"
		return res
	}
	dir, pkgDir, file := parts[0], parts[1], parts[2]
	data, err := os.ReadFile(filepath.Join(verifRoot, "bounded", dir, file))
	if err != nil {
		res.Error = err.Error()
		return res
	}
	src := string(data)
	if len(parts) > 3 {
		src = strings.Replace(src, "package PKG", "package "+parts[3], 1)
	}
	for _, l := range strings.Split(src, "\n") {
		if strings.HasPrefix(l, "// Domain:") {
			res.Bound = strings.TrimSpace(strings.TrimPrefix(l, "// Domain:"))
		}
	}
	work, err := os.MkdirTemp("", "govc-bounded")
	if err != nil {
		res.Error = err.Error()
		return res
	}
	defer os.RemoveAll(work)
	testFile := filepath.Join(work, "zz_verif_bounded_test.go")
	os.WriteFile(testFile, []byte(src), 0o644)
	ov := map[string]map[string]string{"Replace": {filepath.Join(repoRoot, pkgDir, "zz_verif_bounded_test.go"): testFile}}
	ovData, _ := json.Marshal(ov)
	ovFile := filepath.Join(work, "overlay.json")
	os.WriteFile(ovFile, ovData, 0o644)
	args := []string{"test", "-overlay", ovFile, "-vet=off", "-count=1", "-timeout", "180s", "-run", "TestVerifBoundedC16$", "-v", "./" + pkgDir}
	cmd := exec.Command("go", args...)
	cmd.Dir = repoRoot
	cmd.Env = append(os.Environ(), "GOFLAGS=-mod=mod", "GOPROXY=off", "GOSUMDB=off", "GOTOOLCHAIN=local")
	out, _ := cmd.CombinedOutput()
	replay := fmt.Sprintf("bin/govc check C16   (harness /verif/bounded/%s/%s injected into %s)", dir, file, pkgDir)
	seen := map[string]bool{}
	for _, l := range strings.Split(string(out), "\n") {
		l = strings.TrimSpace(l)
		switch {
		case strings.HasPrefix(l, "BOUNDED-FAIL "):
			f := BoundedFailure{ReplayCmd: replay}
			rest := strings.TrimPrefix(l, "BOUNDED-FAIL ")
			if i := strings.Index(rest, " input="); i >= 0 {
				f.Class = strings.TrimPrefix(rest[:i], "class=")
				rest = rest[i+7:]
				if j := strings.LastIndex(rest, " observed="); j >= 0 {
					f.Input = rest[:j]
					f.Observed = rest[j+10:]
				} else {
					f.Input = rest
				}
			} else {
				f.Class = rest
			}
			// one failure per class and stand-in is reported (the first input that shows it)
			if !seen[f.Class] {
				seen[f.Class] = true
				res.Failures = append(res.Failures, f)
			}
		case strings.HasPrefix(l, "BOUNDED cases="):
			fmt.Sscanf(l, "BOUNDED cases=%d", &res.Cases)
		}
	}
	res.Distinct = res.Cases
	if res.Cases == 0 {
		res.Error = "the harness did not run to completion: " + lastLines(string(out), 6)
	}
	res.Samples = []interface{}{map[string]interface{}{"stand_in": name, "cases": res.Cases, "domain": res.Bound}}
	return res
}

func lastLines(s string, n int) string {
	ls := strings.Split(strings.TrimSpace(s), "\n")
	if len(ls) > n {
		ls = ls[len(ls)-n:]
	}
	return strings.Join(ls, " | ")
}
