package main

import (
	"bytes"
	"context"
	"fmt"
	"math/big"
	"os"
	"os/exec"
	"path/filepath"
	"sort"
	"strings"
	"sync"
	"time"
)

// Term is an SMT-LIB term with its sort.
type Term struct {
	S    string
	Sort string
}

const (
	SInt  = "Int"
	SBool = "Bool"
	SArr  = "(Array Int Int)"
	SArrB = "(Array Int Bool)"
	SStr  = "Str"
)

func arrOf(s string) string { return "(Array Int " + s + ")" }

var (
	TTrue  = Term{"true", SBool}
	TFalse = Term{"false", SBool}
	TZero  = Term{"0", SInt}
	TOne   = Term{"1", SInt}
)

func IntLit(n int64) Term {
	if n < 0 {
		return Term{fmt.Sprintf("(- %d)", -n), SInt}
	}
	return Term{fmt.Sprintf("%d", n), SInt}
}

func BigLit(n *big.Int) Term {
	if n.Sign() < 0 {
		return Term{"(- " + new(big.Int).Neg(n).String() + ")", SInt}
	}
	return Term{n.String(), SInt}
}

func (t Term) IsLit() (*big.Int, bool) {
	if t.Sort != SInt {
		return nil, false
	}
	s := t.S
	neg := false
	if strings.HasPrefix(s, "(- ") && strings.HasSuffix(s, ")") {
		s = s[3 : len(s)-1]
		neg = true
	}
	if s == "" {
		return nil, false
	}
	for _, c := range s {
		if c < '0' || c > '9' {
			return nil, false
		}
	}
	n, ok := new(big.Int).SetString(s, 10)
	if !ok {
		return nil, false
	}
	if neg {
		n.Neg(n)
	}
	return n, true
}

func BoolLit(b bool) Term {
	if b {
		return TTrue
	}
	return TFalse
}

func app(sort, op string, args ...Term) Term {
	var sb strings.Builder
	sb.WriteByte('(')
	sb.WriteString(op)
	for _, a := range args {
		sb.WriteByte(' ')
		sb.WriteString(a.S)
	}
	sb.WriteByte(')')
	return Term{sb.String(), sort}
}

func Not(a Term) Term {
	switch a.S {
	case "true":
		return TFalse
	case "false":
		return TTrue
	}
	if strings.HasPrefix(a.S, "(not ") {
		return Term{a.S[5 : len(a.S)-1], SBool}
	}
	return app(SBool, "not", a)
}

func And(as ...Term) Term {
	var out []Term
	for _, a := range as {
		if a.S == "true" {
			continue
		}
		if a.S == "false" {
			return TFalse
		}
		out = append(out, a)
	}
	if len(out) == 0 {
		return TTrue
	}
	if len(out) == 1 {
		return out[0]
	}
	return app(SBool, "and", out...)
}

func Or(as ...Term) Term {
	var out []Term
	for _, a := range as {
		if a.S == "false" {
			continue
		}
		if a.S == "true" {
			return TTrue
		}
		out = append(out, a)
	}
	if len(out) == 0 {
		return TFalse
	}
	if len(out) == 1 {
		return out[0]
	}
	return app(SBool, "or", out...)
}

func Implies(a, b Term) Term {
	if a.S == "true" {
		return b
	}
	if a.S == "false" || b.S == "true" {
		return TTrue
	}
	return app(SBool, "=>", a, b)
}

func Ite(c, a, b Term) Term {
	if c.S == "true" {
		return a
	}
	if c.S == "false" {
		return b
	}
	if a.S == b.S {
		return a
	}
	return app(a.Sort, "ite", c, a, b)
}

func Eq(a, b Term) Term {
	if a.S == b.S {
		return TTrue
	}
	if x, ok := a.IsLit(); ok {
		if y, ok := b.IsLit(); ok {
			return BoolLit(x.Cmp(y) == 0)
		}
	}
	if a.Sort == SBool {
		if b.S == "true" {
			return a
		}
		if b.S == "false" {
			return Not(a)
		}
		if a.S == "true" {
			return b
		}
		if a.S == "false" {
			return Not(b)
		}
	}
	return app(SBool, "=", a, b)
}

func Neq(a, b Term) Term { return Not(Eq(a, b)) }

func arith(op string, a, b Term) Term {
	x, ok1 := a.IsLit()
	y, ok2 := b.IsLit()
	if ok1 && ok2 {
		r := new(big.Int)
		switch op {
		case "+":
			return BigLit(r.Add(x, y))
		case "-":
			return BigLit(r.Sub(x, y))
		case "*":
			return BigLit(r.Mul(x, y))
		}
	}
	switch op {
	case "+":
		if ok1 && x.Sign() == 0 {
			return b
		}
		if ok2 && y.Sign() == 0 {
			return a
		}
	case "-":
		if ok2 && y.Sign() == 0 {
			return a
		}
	case "*":
		if ok1 && x.Cmp(big.NewInt(1)) == 0 {
			return b
		}
		if ok2 && y.Cmp(big.NewInt(1)) == 0 {
			return a
		}
		if (ok1 && x.Sign() == 0) || (ok2 && y.Sign() == 0) {
			return TZero
		}
	}
	return app(SInt, op, a, b)
}

func Add(a, b Term) Term { return arith("+", a, b) }
func Sub(a, b Term) Term { return arith("-", a, b) }
func Mul(a, b Term) Term { return arith("*", a, b) }

// EDiv / EMod: SMT-LIB euclidean div/mod (used when operands are known non-negative / unsigned).
func EDiv(a, b Term) Term {
	x, ok1 := a.IsLit()
	y, ok2 := b.IsLit()
	if ok1 && ok2 && y.Sign() > 0 {
		q, _ := new(big.Int).DivMod(x, y, new(big.Int))
		return BigLit(q)
	}
	return app(SInt, "div", a, b)
}
func EMod(a, b Term) Term {
	x, ok1 := a.IsLit()
	y, ok2 := b.IsLit()
	if ok1 && ok2 && y.Sign() > 0 {
		_, m := new(big.Int).DivMod(x, y, new(big.Int))
		return BigLit(m)
	}
	return app(SInt, "mod", a, b)
}

// TDiv / TMod: Go (truncating) semantics.
func TDiv(a, b Term) Term {
	x, ok1 := a.IsLit()
	y, ok2 := b.IsLit()
	if ok1 && ok2 && y.Sign() != 0 {
		return BigLit(new(big.Int).Quo(x, y))
	}
	return app(SInt, "tdiv", a, b)
}
func TMod(a, b Term) Term {
	x, ok1 := a.IsLit()
	y, ok2 := b.IsLit()
	if ok1 && ok2 && y.Sign() != 0 {
		return BigLit(new(big.Int).Rem(x, y))
	}
	return app(SInt, "tmod", a, b)
}

func cmp(op string, a, b Term) Term {
	x, ok1 := a.IsLit()
	y, ok2 := b.IsLit()
	if ok1 && ok2 {
		c := x.Cmp(y)
		switch op {
		case "<":
			return BoolLit(c < 0)
		case "<=":
			return BoolLit(c <= 0)
		case ">":
			return BoolLit(c > 0)
		case ">=":
			return BoolLit(c >= 0)
		}
	}
	return app(SBool, op, a, b)
}
func Lt(a, b Term) Term { return cmp("<", a, b) }
func Le(a, b Term) Term { return cmp("<=", a, b) }
func Gt(a, b Term) Term { return cmp(">", a, b) }
func Ge(a, b Term) Term { return cmp(">=", a, b) }

func Select(a, i Term) Term {
	sort := elemSort(a.Sort)
	// select over store with syntactically equal index
	if strings.HasPrefix(a.S, "(store ") {
		parts := splitTop(a.S[1 : len(a.S)-1])
		if len(parts) == 4 && parts[2] == i.S {
			return Term{parts[3], sort}
		}
	}
	return app(sort, "select", a, i)
}

func Store(a, i, v Term) Term { return app(a.Sort, "store", a, i, v) }

// elemSort of "(Array Int X)" is X.
func elemSort(s string) string {
	if !strings.HasPrefix(s, "(Array ") {
		panic("elemSort of non-array sort " + s)
	}
	parts := splitTop(s[1 : len(s)-1])
	return parts[2]
}
func keySort(s string) string {
	parts := splitTop(s[1 : len(s)-1])
	return parts[1]
}

// splitTop splits an s-expression body on top-level whitespace.
func splitTop(s string) []string {
	var out []string
	depth := 0
	start := -1
	inBar := false
	for i := 0; i < len(s); i++ {
		c := s[i]
		if inBar {
			if c == '|' {
				inBar = false
			}
			continue
		}
		switch c {
		case '|':
			inBar = true
			if start < 0 {
				start = i
			}
		case '(':
			if start < 0 {
				start = i
			}
			depth++
		case ')':
			depth--
		case ' ', '\n', '\t':
			if depth == 0 && start >= 0 {
				out = append(out, s[start:i])
				start = -1
			}
		default:
			if start < 0 {
				start = i
			}
		}
	}
	if start >= 0 {
		out = append(out, s[start:])
	}
	return out
}

// ---------------------------------------------------------------------------------------------
// symbol table

type Decl struct {
	Name string
	Args []string
	Sort string
}

type SymTab struct {
	mu      sync.Mutex
	n       int
	decls   map[string]Decl
	order   []string
	dts     map[string]string
	dtOrder []string
	axioms  map[string]string
	typing  map[string]string // typing axioms of fresh heap objects (second solving phase only)
}

func NewSymTab() *SymTab { return &SymTab{decls: map[string]Decl{}} }

func quoteSym(s string) string {
	ok := true
	for _, c := range s {
		if !(c >= 'a' && c <= 'z' || c >= 'A' && c <= 'Z' || c >= '0' && c <= '9' || c == '_' || c == '!' || c == '.' || c == '$' || c == '@' || c == '#') {
			ok = false
		}
	}
	if ok && len(s) > 0 && !(s[0] >= '0' && s[0] <= '9') {
		return s
	}
	s = strings.ReplaceAll(s, "|", "!")
	s = strings.ReplaceAll(s, "\\", "!")
	return "|" + s + "|"
}

// Fresh declares a fresh constant.
func (st *SymTab) Fresh(hint, sort string) Term {
	st.mu.Lock()
	defer st.mu.Unlock()
	st.n++
	name := quoteSym(fmt.Sprintf("%s!%d", hint, st.n))
	st.decls[name] = Decl{Name: name, Sort: sort}
	st.order = append(st.order, name)
	return Term{name, sort}
}

// Const declares (idempotently) a named constant.
func (st *SymTab) Const(name, sort string) Term {
	st.mu.Lock()
	defer st.mu.Unlock()
	name = quoteSym(name)
	if d, ok := st.decls[name]; ok {
		if d.Sort != sort || len(d.Args) != 0 {
			panic(fmt.Sprintf("symbol %s redeclared with sort %s (was %s)", name, sort, d.Sort))
		}
		return Term{name, sort}
	}
	st.decls[name] = Decl{Name: name, Sort: sort}
	st.order = append(st.order, name)
	return Term{name, sort}
}

// Func declares (idempotently) an uninterpreted function and returns its quoted name.
func (st *SymTab) Func(name string, args []string, sort string) string {
	st.mu.Lock()
	defer st.mu.Unlock()
	name = quoteSym(name)
	if d, ok := st.decls[name]; ok {
		if d.Sort != sort || len(d.Args) != len(args) {
			panic(fmt.Sprintf("function %s redeclared", name))
		}
		return name
	}
	st.decls[name] = Decl{Name: name, Args: append([]string{}, args...), Sort: sort}
	st.order = append(st.order, name)
	return name
}

// ---------------------------------------------------------------------------------------------
// solver race

type SolveResult struct {
	Status  string // unsat | sat | unknown
	Solver  string
	Seconds float64
	Model   string
	Outputs map[string]string
}

var solverCmds = []struct {
	name string
	args func(file string, timeoutS int) []string
}{
	{"z3", func(f string, t int) []string { return []string{"z3", fmt.Sprintf("-T:%d", t), f} }},
	{"z3-new", func(f string, t int) []string { return []string{"z3-new", fmt.Sprintf("-T:%d", t), f} }},
	{"cvc5", func(f string, t int) []string {
		return []string{"cvc5", fmt.Sprintf("--tlimit=%d", t*1000), "--produce-models", f}
	}},
}

// at most 5 obligations are solved at a time (3 solver processes each on 16 cores): keeps the
// per-query wall time close to the unloaded time, so that timeouts mean something
var solverSem = make(chan struct{}, 5)

// Solve races the installed solvers on one SMT-LIB script (which must end with (check-sat) (get-model)).
func Solve(script string, dir string, name string, timeoutS int) SolveResult {
	solverSem <- struct{}{}
	defer func() { <-solverSem }()
	os.MkdirAll(dir, 0o755)
	file := filepath.Join(dir, name+".smt2")
	os.WriteFile(file, []byte(script), 0o644)
	type one struct {
		solver string
		status string
		out    string
		secs   float64
	}
	ctx, cancel := context.WithCancel(context.Background())
	defer cancel()
	ch := make(chan one, len(solverCmds))
	for _, sc := range solverCmds {
		sc := sc
		go func() {
			a := sc.args(file, timeoutS)
			t0 := time.Now()
			cmd := exec.CommandContext(ctx, a[0], a[1:]...)
			var buf bytes.Buffer
			cmd.Stdout = &buf
			cmd.Stderr = &buf
			done := make(chan struct{})
			go func() {
				select {
				case <-done:
				case <-time.After(time.Duration(timeoutS+5) * time.Second):
					if cmd.Process != nil {
						cmd.Process.Kill()
					}
				}
			}()
			cmd.Run()
			close(done)
			out := buf.String()
			first := strings.TrimSpace(strings.SplitN(out, "\n", 2)[0])
			status := "unknown"
			switch first {
			case "unsat":
				status = "unsat"
			case "sat":
				status = "sat"
			}
			ch <- one{sc.name, status, out, time.Since(t0).Seconds()}
		}()
	}
	res := SolveResult{Status: "unknown", Outputs: map[string]string{}}
	for i := 0; i < len(solverCmds); i++ {
		o := <-ch
		res.Outputs[o.solver] = truncate(o.out, 4000)
		if o.status == "unsat" || o.status == "sat" {
			res.Status = o.status
			res.Solver = o.solver
			res.Seconds = o.secs
			if o.status == "sat" {
				res.Model = o.out
			}
			cancel()
			return res
		}
		if o.secs > res.Seconds {
			res.Seconds = o.secs
		}
	}
	return res
}

func truncate(s string, n int) string {
	if len(s) > n {
		return s[:n] + "...[truncated]"
	}
	return s
}

// parseModel extracts (define-fun name () Sort value) entries for nullary symbols.
func parseModel(model string) map[string]string {
	out := map[string]string{}
	i := strings.Index(model, "(")
	if i < 0 {
		return out
	}
	body := model[i:]
	// strip outer paren if present "(\n (define-fun ..."
	body = strings.TrimSpace(body)
	if strings.HasPrefix(body, "(model") {
		body = "(" + body[len("(model"):]
	}
	if len(body) < 2 {
		return out
	}
	parts := splitTop(body[1 : len(body)-1])
	for _, p := range parts {
		if !strings.HasPrefix(p, "(define-fun ") {
			continue
		}
		f := splitTop(p[1 : len(p)-1])
		if len(f) == 5 && f[2] == "()" {
			out[f[1]] = f[4]
		}
	}
	return out
}

func sortedKeys[V any](m map[string]V) []string {
	ks := make([]string, 0, len(m))
	for k := range m {
		ks = append(ks, k)
	}
	sort.Strings(ks)
	return ks
}
