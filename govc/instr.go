package main

import (
	"fmt"
	"go/ast"
	"go/token"
	"go/types"
	"math/big"
	"sort"
	"strings"

	"golang.org/x/tools/go/ssa"
)

func (e *Engine) execInstr(st *State, fr *Frame, in ssa.Instruction) {
	switch x := in.(type) {
	case *ssa.DebugRef:
		if id, ok := x.Expr.(interface{ String() string }); ok {
			_ = id
		}
		if obj := x.Object(); obj != nil {
			if _, isVar := obj.(*types.Var); isVar {
				ref := x
				if cst, isConst := x.X.(*ssa.Const); isConst && cst.IsNil() && x.Expr != nil && x.Expr.Pos() == obj.Pos() {
					// go/ssa records the defining occurrence of "v := <composite literal / make>" with
					// the zero value; the variable's real value is what its later references show
					for _, b := range fr.fn.Blocks {
						for _, in := range b.Instrs {
							if dr, ok := in.(*ssa.DebugRef); ok && dr != x && dr.Object() == obj {
								if _, c := dr.X.(*ssa.Const); !c && ref == x {
									ref = dr
								}
							}
						}
					}
				}
				fr.names[obj.Name()] = ref.X
				fr.nameAddr[obj.Name()] = ref.IsAddr
				// a reference to a variable that lives in a cell is a load of that cell: bind the
				// name to the cell so that contract expressions see its current value
				if ld, ok := ref.X.(*ssa.UnOp); ok && !ref.IsAddr && ld.Op == token.MUL {
					switch ld.X.(type) {
					case *ssa.Alloc, *ssa.FreeVar, *ssa.Global:
						fr.names[obj.Name()] = ld.X
						fr.nameAddr[obj.Name()] = true
					}
				}
				delete(fr.nameOver, obj.Name())
			}
		}
	case *ssa.Alloc:
		et := x.Type().(*types.Pointer).Elem()
		if a, ok := et.Underlying().(*types.Array); ok {
			r := e.alloc(st, a.Elem(), x.Comment)
			fr.vals[x] = VPtr{Ref: r, Idx: TZero, Root: a.Elem(), ArrLen: a.Len(), NonNil: true}
		} else {
			r := e.alloc(st, et, x.Comment)
			fr.vals[x] = VPtr{Ref: r, Idx: TZero, Root: et, ArrLen: -1, NonNil: true}
		}
		if x.Comment != "" {
			fr.names[x.Comment] = x
			fr.nameAddr[x.Comment] = true
		}
	case *ssa.FieldAddr:
		p := e.get(st, fr, x.X).(VPtr)
		e.assertNonNil(st, fr, fr.sites[x], p)
		stt := under(x.X.Type()).(*types.Pointer).Elem().Underlying().(*types.Struct)
		np := p
		np.Path = append(append([]Step{}, p.Path...), Step{Field: stt.Field(x.Field).Name()})
		np.NonNil = true
		fr.vals[x] = np
	case *ssa.Field:
		s := e.get(st, fr, x.X).(VStruct)
		fr.vals[x] = s.F[x.Field]
	case *ssa.IndexAddr:
		i := e.get(st, fr, x.Index).(Term)
		switch xt := under(x.X.Type()).(type) {
		case *types.Slice:
			s := e.get(st, fr, x.X).(VSlice)
			e.Assert(st, fr, "index", fr.sites[x], And(Le(TZero, i), Lt(i, s.Len)))
			fr.vals[x] = elemPtr(s, i, xt.Elem())
		case *types.Pointer:
			p := e.get(st, fr, x.X).(VPtr)
			at := xt.Elem().Underlying().(*types.Array)
			e.assertNonNil(st, fr, fr.sites[x], p)
			e.Assert(st, fr, "index", fr.sites[x], And(Le(TZero, i), Lt(i, IntLit(at.Len()))))
			if p.ArrLen >= 0 {
				fr.vals[x] = VPtr{Ref: p.Ref, Idx: Add(p.Idx, i), Root: p.Root, ArrLen: -1, NonNil: true}
			} else {
				np := p
				np.Path = append(append([]Step{}, p.Path...), Step{Index: i})
				fr.vals[x] = np
			}
		default:
			panic(unsupported("IndexAddr on " + x.X.Type().String()))
		}
	case *ssa.Index:
		i := e.get(st, fr, x.Index).(Term)
		switch xt := under(x.X.Type()).(type) {
		case *types.Array:
			a := e.get(st, fr, x.X).(VArr)
			e.Assert(st, fr, "index", fr.sites[x], And(Le(TZero, i), Lt(i, IntLit(xt.Len()))))
			var ts []Term
			for _, c := range a.Comps {
				ts = append(ts, Select(c, i))
			}
			v, _ := fromTerms(ts, xt.Elem())
			fr.vals[x] = v
		case *types.Basic: // string
			s := e.get(st, fr, x.X).(VStr)
			e.Assert(st, fr, "index", fr.sites[x], And(Le(TZero, i), Lt(i, strLen(s))))
			fr.vals[x] = Select(strData(s), i)
		default:
			panic(unsupported("Index on " + x.X.Type().String()))
		}
	case *ssa.Slice:
		e.execSlice(st, fr, x)
	case *ssa.UnOp:
		e.execUnOp(st, fr, x)
	case *ssa.BinOp:
		a := e.get(st, fr, x.X)
		b := e.get(st, fr, x.Y)
		fr.vals[x] = e.binop(st, fr, x, x.Op, a, b, x.X.Type(), x.Y.Type(), x.Type())
	case *ssa.Store:
		p := e.get(st, fr, x.Addr).(VPtr)
		e.assertNonNil(st, fr, fr.sites[x], p)
		val := e.get(st, fr, x.Val)
		st.escape(val)
		e.storePtr(st, p, val)
	case *ssa.Convert:
		fr.vals[x] = e.convert(st, fr, x, e.get(st, fr, x.X), x.X.Type(), x.Type())
	case *ssa.ChangeType:
		fr.vals[x] = e.changeType(e.get(st, fr, x.X), x.X.Type(), x.Type())
	case *ssa.MultiConvert:
		panic(unsupported("MultiConvert"))
	case *ssa.ChangeInterface:
		v := e.get(st, fr, x.X)
		if t, isTerm := v.(Term); isTerm {
			if _, toTP := x.Type().(*types.TypeParam); !toTP {
				// a type-parameter typed value converted to a proper interface: box it
				v = VIface{Tag: e.typeTag(x.X.Type()), Val: t}
			}
		}
		fr.vals[x] = v
	case *ssa.MakeInterface:
		fr.vals[x] = e.makeInterface(st, e.get(st, fr, x.X), x.X.Type())
	case *ssa.TypeAssert:
		e.execTypeAssert(st, fr, x)
	case *ssa.Extract:
		tu := e.get(st, fr, x.Tuple).(VTuple)
		if x.Index >= len(tu) {
			panic(fmt.Sprintf("extract %d of %d-tuple in %s", x.Index, len(tu), fr.fn))
		}
		fr.vals[x] = tu[x.Index]
	case *ssa.MakeSlice:
		ln := e.get(st, fr, x.Len).(Term)
		cp := e.get(st, fr, x.Cap).(Term)
		e.Assert(st, fr, "make", fr.sites[x], And(Le(TZero, ln), Le(ln, cp)))
		et := under(x.Type()).(*types.Slice).Elem()
		r := e.alloc(st, et, "make")
		fr.vals[x] = VSlice{r, TZero, ln, cp}
	case *ssa.MakeMap:
		fr.vals[x] = e.makeMap(st, x.Type())
	case *ssa.MakeChan:
		fr.vals[x] = e.makeChan(st, x.Type(), e.get(st, fr, x.Size).(Term))
	case *ssa.MakeClosure:
		fn := x.Fn.(*ssa.Function)
		var bind []Value
		for _, b := range x.Bindings {
			bind = append(bind, e.get(st, fr, b))
		}
		id := e.sym.Fresh("closure", SInt)
		vf := VFunc{Fn: fn, Bind: bind, ID: id}
		if st.funcs == nil {
			st.funcs = map[string]VFunc{}
		}
		st.funcs[id.S] = vf
		fr.vals[x] = vf
	case *ssa.Lookup:
		e.execLookup(st, fr, x)
	case *ssa.MapUpdate:
		m := e.get(st, fr, x.Map).(Term)
		e.Assert(st, fr, "mapwrite", fr.sites[x], Neq(m, TZero))
		e.mapUpdate(st, x.Map.Type(), m, e.get(st, fr, x.Key), e.get(st, fr, x.Value))
	case *ssa.Range:
		e.execRange(st, fr, x)
	case *ssa.Next:
		e.execNext(st, fr, x)
	case *ssa.Defer:
		st.defers = append(st.defers[:len(st.defers):len(st.defers)], deferred{fr, x})
	case *ssa.Go:
		e.note("go statement: spawned function " + callName(x.Common()) + " not executed at the spawn site; its effects on shared state are ignored here")
	case *ssa.Send:
		e.execSend(st, fr, x)
	case *ssa.SliceToArrayPointer:
		s := e.get(st, fr, x.X).(VSlice)
		at := x.Type().(*types.Pointer).Elem().Underlying().(*types.Array)
		e.Assert(st, fr, "conv", fr.sites[x], Ge(s.Len, IntLit(at.Len())))
		fr.vals[x] = VPtr{Ref: s.Arr, Idx: s.Off, Root: at.Elem(), ArrLen: at.Len()}
	default:
		panic(unsupported(fmt.Sprintf("instruction %T: %s", in, in)))
	}
}

func strLen(s VStr) Term  { return app(SInt, "slen", s.T) }
func strData(s VStr) Term { return app(SArr, "sdata", s.T) }

func (e *Engine) execSlice(st *State, fr *Frame, x *ssa.Slice) {
	var lo, hi, max Term
	has := func(v ssa.Value) bool { return v != nil }
	if has(x.Low) {
		lo = e.get(st, fr, x.Low).(Term)
	} else {
		lo = TZero
	}
	switch xt := under(x.X.Type()).(type) {
	case *types.Slice:
		s := e.get(st, fr, x.X).(VSlice)
		if has(x.High) {
			hi = e.get(st, fr, x.High).(Term)
		} else {
			hi = s.Len
		}
		if has(x.Max) {
			max = e.get(st, fr, x.Max).(Term)
		} else {
			max = s.Cap
		}
		e.Assert(st, fr, "slice", fr.sites[x], And(Le(TZero, lo), Le(lo, hi), Le(hi, max), Le(max, s.Cap)))
		fr.vals[x] = VSlice{s.Arr, Add(s.Off, lo), Sub(hi, lo), Sub(max, lo)}
	case *types.Basic:
		s := e.get(st, fr, x.X).(VStr)
		if has(x.High) {
			hi = e.get(st, fr, x.High).(Term)
		} else {
			hi = strLen(s)
		}
		e.Assert(st, fr, "slice", fr.sites[x], And(Le(TZero, lo), Le(lo, hi), Le(hi, strLen(s))))
		fr.vals[x] = e.substr(st, s, lo, hi)
	case *types.Pointer:
		p := e.get(st, fr, x.X).(VPtr)
		at := xt.Elem().Underlying().(*types.Array)
		n := IntLit(at.Len())
		if has(x.High) {
			hi = e.get(st, fr, x.High).(Term)
		} else {
			hi = n
		}
		if has(x.Max) {
			max = e.get(st, fr, x.Max).(Term)
		} else {
			max = n
		}
		e.assertNonNil(st, fr, fr.sites[x], p)
		e.Assert(st, fr, "slice", fr.sites[x], And(Le(TZero, lo), Le(lo, hi), Le(hi, max), Le(max, n)))
		if p.ArrLen < 0 {
			// array embedded in a struct/element: snapshot (read-only) copy
			arr := e.loadPtr(st, p, nil).(VArr)
			r := e.alloc(st, at.Elem(), "arrsnap")
			for i, c := range flatten(at.Elem()) {
				name := heapName(at.Elem(), c.Path)
				h := e.heapGet(st, name, arrOf(arrOf(c.Sort)))
				e.heapSet(st, name, Store(h, r, arr.Comps[i]))
			}
			e.note("slice of an array embedded in a struct is modelled as a read-only snapshot")
			fr.vals[x] = VSlice{r, lo, Sub(hi, lo), Sub(max, lo)}
			return
		}
		fr.vals[x] = VSlice{p.Ref, Add(p.Idx, lo), Sub(hi, lo), Sub(max, lo)}
	default:
		panic(unsupported("Slice on " + x.X.Type().String()))
	}
}

func (e *Engine) substr(st *State, s VStr, lo, hi Term) VStr {
	if lo.S == "0" && hi.S == strLen(s).S {
		return s
	}
	r := e.sym.Fresh("substr", SStr)
	st.Assume(Eq(app(SInt, "slen", r), Sub(hi, lo)))
	q := fmt.Sprintf("(forall ((i Int)) (! (= (select (sdata %s) i) (ite (and (<= 0 i) (< i (- %s %s))) (select (sdata %s) (+ i %s)) 0)) :pattern ((select (sdata %s) i))))", r.S, hi.S, lo.S, s.T.S, lo.S, r.S)
	st.Assume(Term{q, SBool})
	return VStr{r}
}

func (e *Engine) execUnOp(st *State, fr *Frame, x *ssa.UnOp) {
	v := e.get(st, fr, x.X)
	switch x.Op {
	case token.MUL:
		if g, ok := x.X.(*ssa.Global); ok && types.Identical(x.Type(), types.Universe.Lookup("error").Type()) {
			// package-level error variables (sentinels) are treated as immutable, non-nil and
			// pairwise distinct constants (assumption, listed in the evidence)
			name := g.Pkg.Pkg.Path() + "." + g.Name()
			if name == modulePath+".ErrClosed" {
				name = "net.ErrClosed"
			}
			e.assumed["package-level error variables are immutable, non-nil and pairwise distinct (p2p.ErrClosed == net.ErrClosed)"] = true
			n := IntLit(tagNumber("errvar!" + name))
			fr.vals[x] = VIface{Tag: n, Val: n}
			return
		}
		p := v.(VPtr)
		e.assertNonNil(st, fr, fr.sites[x], p)
		val := e.loadPtr(st, p, nil)
		t := x.Type()
		for _, f := range rangeFacts(val, t) {
			st.Assume(f)
		}
		if e.ptrUntouched(st, p) && st.next0.S != "" {
			// the cell still holds its value from the pre-state: references in it were
			// allocated before the function started
			saved := st.next
			st.next = st.next0
			for _, f := range e.allocFacts(st, val, t) {
				st.Assume(f)
			}
			st.next = saved
		} else {
			for _, f := range e.allocFacts(st, val, t) {
				st.Assume(f)
			}
		}
		// function values loaded from the heap may be known closures
		fr.vals[x] = val
	case token.NOT:
		fr.vals[x] = Not(v.(Term))
	case token.SUB:
		r := Sub(TZero, v.(Term))
		fr.vals[x] = e.wrap(r, x.Type())
	case token.XOR:
		// ^x
		t := x.Type()
		if lo, hi, w, signed, ok := intRange(t); ok {
			_ = lo
			if signed {
				fr.vals[x] = Sub(Sub(TZero, v.(Term)), TOne)
			} else {
				r := Sub(BigLit(hi), v.(Term))
				if b, ok := e.bits[v.(Term).S]; ok && !b.inv {
					e.noteBit(r, b.k, w, true)
				}
				fr.vals[x] = r
			}
		} else {
			panic(unsupported("^ on " + t.String()))
		}
	case token.ARROW:
		e.execRecv(st, fr, x)
	default:
		panic(unsupported("unop " + x.Op.String()))
	}
}

// wrap applies two's complement wrap-around of type t to the mathematical result r.
// Unsigned types wrap exactly; signed int/int64 arithmetic is assumed not to overflow.
func (e *Engine) wrap(r Term, t types.Type) Term {
	_, _, w, signed, ok := intRange(t)
	if !ok {
		return r
	}
	if !signed {
		if lit, isLit := r.IsLit(); isLit {
			return BigLit(new(big.Int).Mod(lit, pow2(w)))
		}
		return EMod(r, BigLit(pow2(w)))
	}
	if w < 64 {
		// exact wrap for narrow signed types
		half := pow2(w - 1)
		return Sub(EMod(Add(r, BigLit(half)), BigLit(pow2(w))), BigLit(half))
	}
	e.note("int/int64 arithmetic treated as mathematical (no overflow)")
	return r
}

func (e *Engine) binop(st *State, fr *Frame, in ssa.Instruction, op token.Token, a, b Value, ta, tb, tr types.Type) Value {
	switch op {
	case token.EQL:
		return e.valueEq(a, b, ta)
	case token.NEQ:
		return Not(e.valueEq(a, b, ta))
	}
	if isString(ta) {
		sa, sb := a.(VStr), b.(VStr)
		switch op {
		case token.ADD:
			return e.strConcat(st, sa, sb)
		case token.LSS, token.LEQ, token.GTR, token.GEQ:
			c := e.sym.Func("str_cmp", []string{SStr, SStr}, SInt)
			r := app(SInt, c, sa.T, sb.T)
			switch op {
			case token.LSS:
				return Lt(r, TZero)
			case token.LEQ:
				return Le(r, TZero)
			case token.GTR:
				return Gt(r, TZero)
			default:
				return Ge(r, TZero)
			}
		}
		panic(unsupported("string op " + op.String()))
	}
	x, okx := a.(Term)
	y, oky := b.(Term)
	if !okx || !oky {
		panic(unsupported(fmt.Sprintf("binop %s on %T", op, a)))
	}
	if isBoolean(ta) {
		switch op {
		case token.LAND, token.AND:
			return And(x, y)
		case token.LOR, token.OR:
			return Or(x, y)
		}
	}
	if !isInteger(ta) {
		// floats: opaque
		f := e.sym.Func("float_"+op.String(), []string{SInt, SInt}, sortOfType(tr))
		return app(sortOfType(tr), f, x, y)
	}
	switch op {
	case token.LSS:
		return Lt(x, y)
	case token.LEQ:
		return Le(x, y)
	case token.GTR:
		return Gt(x, y)
	case token.GEQ:
		return Ge(x, y)
	case token.ADD:
		return e.wrap(Add(x, y), tr)
	case token.SUB:
		return e.wrap(Sub(x, y), tr)
	case token.MUL:
		return e.wrap(Mul(x, y), tr)
	case token.QUO:
		if in != nil {
			e.Assert(st, fr, "div", fr.sites[in], Neq(y, TZero))
		}
		if isUnsigned(tr) {
			return EDiv(x, y)
		}
		return TDiv(x, y)
	case token.REM:
		if in != nil {
			e.Assert(st, fr, "div", fr.sites[in], Neq(y, TZero))
		}
		if isUnsigned(tr) {
			return EMod(x, y)
		}
		return TMod(x, y)
	case token.SHL:
		_, _, w, _, _ := intRange(tr)
		if in != nil && !isUnsigned(tb) {
			e.Assert(st, fr, "shift", fr.sites[in], Ge(y, TZero))
		}
		if n, ok := y.IsLit(); ok && n.IsInt64() && n.Int64() < 256 {
			if uint(n.Int64()) >= w && isUnsigned(tr) {
				return TZero
			}
			return e.wrap(Mul(x, BigLit(pow2(uint(n.Int64())))), tr)
		}
		r := e.wrap(Mul(x, app(SInt, "pow2", y)), tr)
		if x.S == "1" && isUnsigned(tr) {
			// 1 << k: a single-bit mask (exact rewrites of &, |, &^ with it, see bitop)
			e.noteBit(r, y, w, false)
		}
		return r
	case token.SHR:
		if in != nil && !isUnsigned(tb) {
			e.Assert(st, fr, "shift", fr.sites[in], Ge(y, TZero))
		}
		if n, ok := y.IsLit(); ok && n.IsInt64() && n.Int64() < 256 {
			return EDiv(x, BigLit(pow2(uint(n.Int64()))))
		}
		return EDiv(x, app(SInt, "pow2", y))
	case token.AND, token.OR, token.XOR, token.AND_NOT:
		return e.bitop(st, op, x, y, tr)
	}
	panic(unsupported("binop " + op.String()))
}

func sortOfType(t types.Type) string {
	c := flatten(t)
	if len(c) != 1 {
		panic(unsupported("sortOfType: composite " + t.String()))
	}
	return c[0].Sort
}

// isMask returns k if n == 2^k - 1.
func isMask(n *big.Int) (uint, bool) {
	if n.Sign() <= 0 {
		return 0, false
	}
	m := new(big.Int).Add(n, big.NewInt(1))
	if m.BitLen()-1 == int(m.TrailingZeroBits()) {
		return uint(m.BitLen() - 1), true
	}
	return 0, false
}

// contiguous mask: bits lo..hi-1 set.
func isContigMask(n *big.Int) (lo, hi uint, ok bool) {
	if n.Sign() <= 0 {
		return 0, 0, false
	}
	lo = n.TrailingZeroBits()
	sh := new(big.Int).Rsh(n, lo)
	k, ok := isMask(sh)
	if !ok {
		return 0, 0, false
	}
	return lo, lo + k, true
}

func (e *Engine) bitop(st *State, op token.Token, x, y Term, t types.Type) Term {
	_, hiT, w, signed, _ := intRange(t)
	if signed {
		w = 64
	}
	xl, okx := x.IsLit()
	yl, oky := y.IsLit()
	if okx && oky && xl.Sign() >= 0 && yl.Sign() >= 0 {
		r := new(big.Int)
		switch op {
		case token.AND:
			r.And(xl, yl)
		case token.OR:
			r.Or(xl, yl)
		case token.XOR:
			r.Xor(xl, yl)
		case token.AND_NOT:
			r.AndNot(xl, yl)
		}
		return BigLit(r)
	}
	// x & (2^k - 1) is x mod 2^k (Euclidean), for unsigned values and, in two's complement, for
	// negative ones as well
	if op == token.AND {
		if oky && yl.Sign() > 0 {
			if k, ok := isMask(yl); ok && k < w {
				return EMod(x, BigLit(pow2(k)))
			}
		}
		if okx && xl.Sign() > 0 {
			if k, ok := isMask(xl); ok && k < w {
				return EMod(y, BigLit(pow2(k)))
			}
		}
	}
	// exact treatment of single-bit masks 1<<k (k < width) and their complements
	if !signed {
		// a | b where a is a multiple of 2^k and b < 2^k (disjoint bit ranges): a + b
		if op == token.OR || op == token.XOR {
			if k, ok := multipleOfPow2(x); ok {
				if m, ok2 := belowPow2(y); ok2 && m <= k {
					return Add(x, y)
				}
			}
			if k, ok := multipleOfPow2(y); ok {
				if m, ok2 := belowPow2(x); ok2 && m <= k {
					return Add(x, y)
				}
			}
		}
		bx, isbx := e.bits[x.S]
		by, isby := e.bits[y.S]
		// literal single-bit masks and their complements
		litBit := func(l *big.Int) (bitInfo, bool) {
			if l.Sign() > 0 && l.BitLen()-1 == int(l.TrailingZeroBits()) {
				return bitInfo{IntLit(int64(l.BitLen() - 1)), w, false}, true
			}
			c := new(big.Int).Sub(hiT, l)
			if c.Sign() > 0 && c.BitLen()-1 == int(c.TrailingZeroBits()) {
				return bitInfo{IntLit(int64(c.BitLen() - 1)), w, true}, true
			}
			return bitInfo{}, false
		}
		if oky && !isby {
			by, isby = litBit(yl)
		}
		if okx && !isbx {
			bx, isbx = litBit(xl)
		}
		if isbx && !isby && op != token.AND_NOT {
			x, y = y, x
			by, isby = bx, true
		}
		if isby && by.w == w {
			pk := app(SInt, "pow2", by.k)
			inRange := And(Le(TZero, by.k), Lt(by.k, IntLit(int64(w))))
			bit := Eq(EMod(EDiv(x, pk), IntLit(2)), TOne)
			var r Term
			okOp := true
			switch {
			case !by.inv && op == token.AND:
				r = Ite(bit, pk, TZero)
			case !by.inv && op == token.OR:
				r = Ite(bit, x, Add(x, pk))
			case !by.inv && op == token.XOR:
				r = Ite(bit, Sub(x, pk), Add(x, pk))
			case !by.inv && op == token.AND_NOT:
				r = Ite(bit, Sub(x, pk), x)
			case by.inv && op == token.AND:
				r = Ite(bit, Sub(x, pk), x)
			default:
				okOp = false
			}
			if okOp {
				// for k >= width the mask is 0 (or all ones): fall back to the trivial result
				var dflt Term
				switch {
				case !by.inv && op == token.AND:
					dflt = TZero
				default:
					dflt = x
				}
				return Ite(inRange, r, dflt)
			}
		}
	}
	if op == token.AND_NOT && oky && !signed {
		// x &^ c == x & (^c)
		return e.bitop(st, token.AND, x, BigLit(new(big.Int).Sub(hiT, yl)), t)
	}
	if op == token.AND && !signed {
		if okx && !oky {
			x, y = y, x
			xl, yl, okx, oky = yl, xl, oky, okx
		}
		if oky {
			if yl.Sign() == 0 {
				return TZero
			}
			if yl.Cmp(hiT) == 0 {
				return x
			}
			if k, ok := isMask(yl); ok {
				return EMod(x, BigLit(pow2(k)))
			}
			if lo, hi, ok := isContigMask(yl); ok {
				return Mul(EMod(EDiv(x, BigLit(pow2(lo))), BigLit(pow2(hi-lo))), BigLit(pow2(lo)))
			}
		}
	}
	if (op == token.OR || op == token.XOR) && ((oky && yl.Sign() == 0) || (okx && xl.Sign() == 0)) {
		if oky && yl.Sign() == 0 {
			return x
		}
		return y
	}
	name := map[token.Token]string{token.AND: "bvand", token.OR: "bvor", token.XOR: "bvxor", token.AND_NOT: "bvandnot"}[op]
	name = fmt.Sprintf("%s_%d", name, w)
	if signed {
		name += "s"
	}
	f := e.sym.Func(name, []string{SInt, SInt}, SInt)
	if op != token.AND_NOT && x.S > y.S {
		x, y = y, x // commutative: normalise argument order
	}
	r := app(SInt, f, x, y)
	if !signed {
		// sound facts about the result, as a guarded quantified axiom with a pattern
		M := pow2(w).String()
		guard := fmt.Sprintf("(and (<= 0 a) (< a %s) (<= 0 b) (< b %s))", M, M)
		ra := "(" + f + " a b)"
		var body string
		switch op {
		case token.AND:
			body = fmt.Sprintf("(and (<= 0 %s) (<= %s a) (<= %s b))", ra, ra, ra)
		case token.OR:
			body = fmt.Sprintf("(and (>= %s a) (>= %s b) (<= %s (+ a b)) (< %s %s))", ra, ra, ra, ra, M)
		case token.XOR:
			body = fmt.Sprintf("(and (<= 0 %s) (<= %s (+ a b)) (< %s %s) (= (= %s 0) (= a b)))", ra, ra, ra, M, ra)
		case token.AND_NOT:
			body = fmt.Sprintf("(and (<= 0 %s) (<= %s a))", ra, ra)
		}
		ax := fmt.Sprintf("(assert (forall ((a Int) (b Int)) (! (=> %s %s) :pattern (%s))))", guard, body, ra)
		if op != token.AND_NOT {
			ax += fmt.Sprintf("\n(assert (forall ((a Int) (b Int)) (! (= %s (%s b a)) :pattern (%s))))", ra, f, ra)
		}
		e.sym.Axiom(f, ax)
	}
	return r
}

func (e *Engine) valueEq(a, b Value, t types.Type) Term {
	switch x := a.(type) {
	case Term:
		if y, ok := b.(Term); ok {
			return Eq(x, y)
		}
		if y, ok := b.(VFunc); ok {
			return Eq(x, y.ID)
		}
	case VStr:
		// a string is empty iff its length is 0 (whatever its data component holds)
		if y := b.(VStr); y.T.S == "str_empty" {
			return Eq(strLen(x), TZero)
		} else if x.T.S == "str_empty" {
			return Eq(strLen(y), TZero)
		}
		return Eq(x.T, b.(VStr).T)
	case VPtr:
		y := b.(VPtr)
		if len(x.Path) != 0 || len(y.Path) != 0 {
			panic(unsupported("comparison of interior pointers"))
		}
		return And(Eq(x.Ref, y.Ref), Or(Eq(x.Ref, TZero), Eq(x.Idx, y.Idx)))
	case VSlice:
		// only comparison with nil is legal
		y := b.(VSlice)
		if y.Arr.S == "0" {
			return Eq(x.Arr, TZero)
		}
		if x.Arr.S == "0" {
			return Eq(y.Arr, TZero)
		}
		return And(Eq(x.Arr, y.Arr), Eq(x.Off, y.Off), Eq(x.Len, y.Len))
	case VIface:
		y := b.(VIface)
		// the nil interface is the one with type tag 0 (its value word is irrelevant)
		if y.Tag.S == "0" {
			return Eq(x.Tag, TZero)
		}
		if x.Tag.S == "0" {
			return Eq(y.Tag, TZero)
		}
		return And(Eq(x.Tag, y.Tag), Or(Eq(x.Tag, TZero), Eq(x.Val, y.Val)))
	case VFunc:
		switch y := b.(type) {
		case VFunc:
			return Eq(x.ID, y.ID)
		case Term:
			return Eq(x.ID, y)
		}
	case VStruct:
		y := b.(VStruct)
		st := t.Underlying().(*types.Struct)
		var cs []Term
		for i := range x.F {
			if unitType(st.Field(i).Type()) {
				continue
			}
			cs = append(cs, e.valueEq(x.F[i], y.F[i], st.Field(i).Type()))
		}
		return And(cs...)
	case VArr:
		y := b.(VArr)
		if x.N > 64 {
			panic(unsupported("comparison of large arrays"))
		}
		var cs []Term
		for i := int64(0); i < x.N; i++ {
			for k := range x.Comps {
				cs = append(cs, Eq(Select(x.Comps[k], IntLit(i)), Select(y.Comps[k], IntLit(i))))
			}
		}
		return And(cs...)
	}
	panic(unsupported(fmt.Sprintf("equality on %T / %T", a, b)))
}

func (e *Engine) convert(st *State, fr *Frame, in ssa.Instruction, v Value, from, to types.Type) Value {
	fu, tu := from.Underlying(), to.Underlying()
	if isInteger(from) && isInteger(to) {
		x := v.(Term)
		flo, fhi, _, _, _ := intRange(from)
		tlo, thi, w, signed, _ := intRange(to)
		if flo.Cmp(tlo) >= 0 && fhi.Cmp(thi) <= 0 {
			return x
		}
		if lit, ok := x.IsLit(); ok && lit.Cmp(tlo) >= 0 && lit.Cmp(thi) <= 0 {
			return x
		}
		if !signed {
			return EMod(x, BigLit(pow2(w)))
		}
		half := pow2(w - 1)
		return Sub(EMod(Add(x, BigLit(half)), BigLit(pow2(w))), BigLit(half))
	}
	if _, ok := fu.(*types.Slice); ok && isString(to) {
		s := v.(VSlice)
		return e.bytesToString(st, s)
	}
	if _, ok := tu.(*types.Slice); ok && isString(from) {
		s := v.(VStr)
		et := tu.(*types.Slice).Elem()
		if !types.Identical(et.Underlying(), types.Typ[types.Uint8]) {
			panic(unsupported("[]rune conversion"))
		}
		r := e.alloc(st, et, "strbytes")
		name := heapName(et, "")
		h := e.heapGet(st, name, arrOf(SArr))
		e.heapSet(st, name, Store(h, r, strData(s)))
		return VSlice{r, TZero, strLen(s), strLen(s)}
	}
	if isInteger(from) && isString(to) {
		f := e.sym.Func("rune_to_str", []string{SInt}, SStr)
		return VStr{app(SStr, f, v.(Term))}
	}
	if _, ok := tu.(*types.Basic); ok {
		if _, ok2 := fu.(*types.Basic); ok2 {
			// float <-> int conversions: opaque
			f := e.sym.Func("conv_"+heapTypeName(from)+"_"+heapTypeName(to), []string{SInt}, SInt)
			r := app(SInt, f, v.(Term))
			if isInteger(to) {
				for _, fact := range rangeFacts(r, to) {
					st.Assume(fact)
				}
			}
			return r
		}
	}
	if _, ok := tu.(*types.Pointer); ok {
		return v
	}
	panic(unsupported(fmt.Sprintf("convert %s -> %s", from, to)))
}

func (e *Engine) bytesToString(st *State, s VSlice) VStr {
	h := e.heapGet(st, heapName(types.Typ[types.Uint8], ""), arrOf(SArr))
	return e.strOf(Select(h, s.Arr), s.Off, s.Len)
}

// strOf: the string made of the bytes d[o..o+l) -- a function symbol with defining axioms, so that
// code and contracts denote the same value and equal contents give equal strings.
func (e *Engine) strOf(d, o, l Term) VStr {
	f := e.sym.Func("str_of", []string{SArr, SInt, SInt}, SStr)
	e.sym.Axiom(f, "(assert (forall ((d (Array Int Int)) (o Int) (l Int)) (! (= (slen (str_of d o l)) (ite (>= l 0) l 0)) :pattern ((str_of d o l)))))\n"+
		"(assert (forall ((d (Array Int Int)) (o Int) (l Int) (i Int)) (! (= (select (sdata (str_of d o l)) i) (ite (and (<= 0 i) (< i l)) (select d (+ o i)) 0)) :pattern ((select (sdata (str_of d o l)) i)))))")
	return VStr{app(SStr, f, d, o, l)}
}

func (e *Engine) strConcat(st *State, a, b VStr) VStr {
	r := e.sym.Fresh("strcat", SStr)
	la, lb := strLen(a), strLen(b)
	st.Assume(Eq(app(SInt, "slen", r), Add(la, lb)))
	q := fmt.Sprintf("(forall ((i Int)) (! (= (select (sdata %s) i) (ite (and (<= 0 i) (< i %s)) (select (sdata %s) i) (ite (and (<= %s i) (< i (+ %s %s))) (select (sdata %s) (- i %s)) 0))) :pattern ((select (sdata %s) i))))",
		r.S, la.S, a.T.S, la.S, la.S, lb.S, b.T.S, la.S, r.S)
	st.Assume(Term{q, SBool})
	return VStr{r}
}

func (e *Engine) changeType(v Value, from, to types.Type) Value {
	if t, isTerm := v.(Term); isTerm {
		_, fromTP := from.(*types.TypeParam)
		_, toTP := to.(*types.TypeParam)
		if _, toIface := to.Underlying().(*types.Interface); fromTP && toIface && !toTP {
			// a type-parameter typed value converted to a proper interface: box it
			return VIface{Tag: e.typeTag(from), Val: t}
		}
	}
	if s, ok := v.(VStruct); ok {
		if ts, ok2 := to.Underlying().(*types.Struct); ok2 {
			s.T = ts
		}
		return s
	}
	return v
}

func (e *Engine) typeTag(t types.Type) Term {
	return IntLit(tagNumber("type!" + heapTypeName(t)))
}

func (e *Engine) makeInterface(st *State, v Value, t types.Type) Value {
	var val Term
	comps := flatten(t)
	ts := toTermsSafe(v, t)
	if len(comps) == 1 && comps[0].Sort == SInt && ts != nil {
		val = ts[0]
	} else {
		// box: an opaque identity for the boxed value, functionally determined by its components
		if ts != nil && len(ts) > 0 && len(ts) <= 8 {
			var sorts []string
			for _, x := range ts {
				sorts = append(sorts, x.Sort)
			}
			f := e.sym.Func("box!"+heapTypeName(t), sorts, SInt)
			val = app(SInt, f, ts...)
		} else {
			val = e.sym.Fresh("box", SInt)
		}
	}
	return VIface{Tag: e.typeTag(t), Val: val, Dyn: v, DynT: t}
}

func toTermsSafe(v Value, t types.Type) (ts []Term) {
	defer func() {
		if r := recover(); r != nil {
			ts = nil
		}
	}()
	return toTerms(v, t)
}

func (e *Engine) execTypeAssert(st *State, fr *Frame, x *ssa.TypeAssert) {
	v := e.get(st, fr, x.X)
	iv, isIface := v.(VIface)
	_, toIface := x.AssertedType.Underlying().(*types.Interface)
	if _, isTP := x.AssertedType.(*types.TypeParam); isTP {
		toIface = false
	}
	if !isIface {
		// type parameter typed operand: opaque
		iv = VIface{Tag: e.sym.Fresh("tag", SInt), Val: v.(Term)}
	}
	var okT Term
	var res Value
	if toIface {
		if iv.Dyn != nil && iv.DynT != nil {
			if types.Implements(iv.DynT, x.AssertedType.Underlying().(*types.Interface)) {
				okT = TTrue
			} else {
				okT = TFalse
			}
		} else {
			okT = And(Neq(iv.Tag, TZero), e.sym.Fresh("implements", SBool))
		}
		res = iv
	} else {
		okT = Eq(iv.Tag, e.typeTag(x.AssertedType))
		if iv.Dyn != nil && iv.DynT != nil {
			if types.Identical(iv.DynT, x.AssertedType) {
				okT = TTrue
				res = iv.Dyn
			} else {
				okT = TFalse
				res = zeroValue(x.AssertedType)
			}
		} else {
			comps := flatten(x.AssertedType)
			if len(comps) == 1 && comps[0].Sort == SInt {
				res, _ = fromTerms([]Term{iv.Val}, x.AssertedType)
			} else if _, isPtr := x.AssertedType.Underlying().(*types.Pointer); isPtr {
				// pointers box as (ref) with idx 0 assumed
				res, _ = fromTerms([]Term{iv.Val, TZero}, x.AssertedType)
			} else {
				res = e.freshTyped(st, x.AssertedType, "unbox")
			}
		}
	}
	if x.CommaOk {
		fr.vals[x] = VTuple{res, okT}
		return
	}
	e.Assert(st, fr, "assert", fr.sites[x], okT)
	st.Assume(okT)
	fr.vals[x] = res
}

// ---------------------------------------------------------------------------------------------
// Loops

// loopTargets: SSA values (phis) of the head and heap components written in the loop body.
func (e *Engine) loopWrittenHeaps(fr *Frame, head *ssa.BasicBlock) (comps map[string]bool, all bool) {
	comps = map[string]bool{}
	for b := range fr.loops.body[head] {
		for _, in := range b.Instrs {
			switch x := in.(type) {
			case *ssa.Store:
				pt := x.Addr.Type().Underlying().(*types.Pointer).Elem()
				_ = pt
				comps["store"] = true
			case *ssa.MapUpdate:
				comps["map"] = true
			case *ssa.Call:
				comps["call"] = true
			case *ssa.Send, *ssa.Select, *ssa.Go, *ssa.Defer:
				comps["call"] = true
			}
		}
	}
	return comps, len(comps) > 0
}

func (e *Engine) loopInvariants(fr *Frame, ord int) []Clause {
	if fr.contract == nil {
		return nil
	}
	return fr.contract.Loops[ord]
}

// bindLoopNames binds the range key variable of a range-over-slice loop to phi+1 at the head.
func (e *Engine) bindLoopNames(st *State, fr *Frame, head *ssa.BasicBlock) {
	ord := fr.loops.heads[head]
	for _, in := range head.Instrs {
		phi, ok := in.(*ssa.Phi)
		if !ok {
			break
		}
		if phi.Comment == "rangeindex" {
			v := fr.vals[phi].(Term)
			next := Add(v, TOne)
			fr.nameOver["_i"] = next
			if ord < len(fr.loops.stmts) {
				if rs, ok := fr.loops.stmts[ord].(*ast.RangeStmt); ok {
					if id := rangeKeyName(rs); id != "" && id != "_" {
						fr.nameOver[id] = next
					}
				}
			}
		}
	}
}

func (e *Engine) loopEntry(st *State, fr *Frame, head, pred *ssa.BasicBlock, k cont) {
	ord := fr.loops.heads[head]
	invs := e.loopInvariants(fr, ord)
	// 1. phis from the entry edge, assert invariants
	e.execPhis(st, fr, head, pred)
	e.bindLoopNames(st, fr, head)
	preHeap := copyHeap(st.heap)
	for _, inv := range invs {
		c := e.evalClause(st, fr, inv, nil)
		e.Assert(st, fr, fmt.Sprintf("loop%d:entry", ord), inv.Label, c)
		st.Assume(c)
	}
	// 2. havoc phis and heap written in the loop
	for _, in := range head.Instrs {
		phi, ok := in.(*ssa.Phi)
		if !ok {
			break
		}
		fr.vals[phi] = e.freshTyped(st, phi.Type(), "loop!"+phi.Comment)
	}
	e.bindLoopNames(st, fr, head)
	e.havocLoopHeap(st, fr, head)
	// ghost variables assigned by call-site hooks may have been assigned in an earlier iteration:
	// at the loop head they are arbitrary (the invariants say what is known about them)
	if fr.contract != nil {
		for _, h := range fr.contract.Ghost {
			for _, gs := range h.Sets {
				if cur, ok := st.ghost["g!"+gs.Name]; ok {
					st.ghost["g!"+gs.Name] = e.sym.Fresh("ghost!"+gs.Name, cur.Sort)
				}
			}
		}
	}
	// map iterators advanced in the loop: the set of keys already produced is arbitrary
	for b := range fr.loops.body[head] {
		for _, in := range b.Instrs {
			if nx, ok := in.(*ssa.Next); ok {
				if it, ok := fr.vals[nx.Iter].(VIter); ok {
					ks := e.keySort(it.MT.Key())
					st.ghost[it.Name] = e.sym.Fresh("seen", "(Array "+ks+" Bool)")
					st.ghost["iter!current"] = Term{it.Name, SInt}
				}
			}
		}
	}
	_ = preHeap
	// 3. assume invariants
	for _, inv := range invs {
		c := e.evalClause(st, fr, inv, nil)
		st.Assume(c)
	}
	e.runInstrs(st, fr, head, firstNonPhi(head), k)
}

func (e *Engine) loopBackEdge(st *State, fr *Frame, head, pred *ssa.BasicBlock, k cont) {
	ord := fr.loops.heads[head]
	invs := e.loopInvariants(fr, ord)
	// the head's phis are shared with sibling paths (the loop exit): save and restore them
	saved := map[ssa.Value]Value{}
	for _, in := range head.Instrs {
		phi, ok := in.(*ssa.Phi)
		if !ok {
			break
		}
		saved[phi] = fr.vals[phi]
	}
	savedOver := map[string]Value{}
	for k, v := range fr.nameOver {
		savedOver[k] = v
	}
	savedNames := map[string]ssa.Value{}
	for k, v := range fr.names {
		savedNames[k] = v
	}
	e.execPhis(st, fr, head, pred)
	e.bindLoopNames(st, fr, head)
	for _, inv := range invs {
		c := e.evalClause(st, fr, inv, nil)
		e.Assert(st, fr, fmt.Sprintf("loop%d:step", ord), inv.Label, c)
		st.Assume(c)
	}
	for k, v := range saved {
		fr.vals[k] = v
	}
	fr.nameOver = savedOver
	fr.names = savedNames
	st.End("back edge")
}

func copyHeap(h map[string]Term) map[string]Term {
	c := make(map[string]Term, len(h))
	for k, v := range h {
		c[k] = v
	}
	return c
}

// havocLoopHeap havocs the heap locations the loop body may write: single objects when the written
// object is loop-invariant, all objects of one element type when it is not, everything when the
// body calls code whose effects are unknown.
func (e *Engine) havocLoopHeap(st *State, fr *Frame, head *ssa.BasicBlock) {
	body := fr.loops.body[head]
	inLoop := func(v ssa.Value) bool {
		if in, ok := v.(ssa.Instruction); ok {
			return body[in.Block()]
		}
		return false
	}
	havocAll := false
	type objTarget struct {
		prefix string
		ref    Term
	}
	var objs []objTarget
	types_ := map[string]bool{}
	prefixRoots := map[string]types.Type{}
	prefixMaps := map[string]*types.Map{}
	compTargets := map[string]bool{} // component prefixes havocked for all objects
	var chains []objTarget
	add := func(prefix string, base ssa.Value, refOf func(Value) (Term, bool)) {
		// make sure the components exist on this path before they are havocked
		if root, ok := prefixRoots[prefix]; ok {
			for _, c := range flatten(root) {
				e.heapGet(st, heapName(root, c.Path), arrOf(arrOf(c.Sort)))
			}
		}
		if mt, ok := prefixMaps[prefix]; ok {
			dom, card, vals := e.mapHeaps(mt)
			for _, h := range append([]heapRef{dom, card}, vals...) {
				e.heapGet(st, h.name, h.sort)
			}
		}
		if base != nil && !inLoop(base) {
			if v, ok := fr.vals[base]; ok {
				if r, ok := refOf(v); ok {
					objs = append(objs, objTarget{prefix, r})
					return
				}
			}
		}
		if base != nil && inLoop(base) {
			// a field of a loop-invariant object re-read in every iteration (b.entries): if the
			// loop never stores to that struct type the value is the one at the loop head
			if v, ok := e.invariantFieldLoad(st, fr, base, inLoop, body); ok {
				if r, ok := refOf(v); ok {
					objs = append(objs, objTarget{prefix, r})
					return
				}
			}
		}
		types_[prefix] = true
	}
	refOfAny := func(v Value) (Term, bool) {
		switch x := v.(type) {
		case VSlice:
			return x.Arr, true
		case VPtr:
			return x.Ref, true
		case Term:
			return x, true
		}
		return Term{}, false
	}
	for b := range body {
		for _, in := range b.Instrs {
			switch x := in.(type) {
			case *ssa.Store:
				prefix, base, root := storeRoot(x.Addr)
				if prefix == "" {
					havocAll = true
					continue
				}
				prefixRoots[prefix] = root
				if al, isAlloc := base.(*ssa.Alloc); isAlloc && inLoop(al) {
					// a variable allocated inside the loop: only objects younger than the loop
					// entry are written
					for _, cc := range flatten(root) {
						e.heapGet(st, heapName(root, cc.Path), arrOf(arrOf(cc.Sort)))
					}
					chains = append(chains, objTarget{prefix, TZero})
					continue
				}
				add(prefix, base, refOfAny)
			case *ssa.MapUpdate:
				mt := under(x.Map.Type()).(*types.Map)
				prefixMaps["M!"+heapTypeName(mt.Key())+"!"+heapTypeName(mt.Elem())+"!"] = mt
				add("M!"+heapTypeName(mt.Key())+"!"+heapTypeName(mt.Elem())+"!", x.Map, refOfAny)
			case *ssa.Call:
				c := x.Common()
				if bi, ok := c.Value.(*ssa.Builtin); ok {
					switch bi.Name() {
					case "append", "copy":
						if sl, ok := under(c.Args[0].Type()).(*types.Slice); ok {
							prefix := "A!" + heapTypeName(sl.Elem()) + "!"
							prefixRoots[prefix] = sl.Elem()
							// x = append(x, ...) chains: only the entry object and fresh objects are written
							if entry := appendChainEntry(c.Args[0], head, inLoop); entry != nil {
								v, ok := fr.vals[entry]
								if cst, isConst := entry.(*ssa.Const); isConst {
									v, ok = e.constValue(cst), true
								}
								if ok {
									if s, ok := v.(VSlice); ok {
										for _, cc := range flatten(sl.Elem()) {
											e.heapGet(st, heapName(sl.Elem(), cc.Path), arrOf(arrOf(cc.Sort)))
										}
										chains = append(chains, objTarget{prefix, s.Arr})
										continue
									}
								}
							}
							add(prefix, c.Args[0], refOfAny)
							continue
						}
					case "delete":
						mt := under(c.Args[0].Type()).(*types.Map)
						prefixMaps["M!"+heapTypeName(mt.Key())+"!"+heapTypeName(mt.Elem())+"!"] = mt
						add("M!"+heapTypeName(mt.Key())+"!"+heapTypeName(mt.Elem())+"!", c.Args[0], refOfAny)
						continue
					}
				}
				if ws, ok := e.contractWrites(c); ok {
					for _, w := range ws {
						compTargets[w] = true
					}
					continue
				}
				if !e.callIsPure(fr, c) {
					havocAll = true
				}
			case *ssa.Send, *ssa.Select, *ssa.Go, *ssa.Defer:
				havocAll = true
			}
		}
	}
	if havocAll {
		e.havocAllHeap(st, "loop")
		return
	}
	names := sortedKeys(st.heap)
	// append chains: every object other than the chain's entry object that existed at loop entry
	// keeps its contents
	entryNext := st.next
	chainDone := map[string]bool{}
	for _, t := range chains {
		if types_[t.prefix] {
			continue
		}
		var others []Term
		for _, u := range chains {
			if u.prefix == t.prefix {
				others = append(others, u.ref)
			}
		}
		if chainDone[t.prefix] {
			continue
		}
		chainDone[t.prefix] = true
		for _, name := range names {
			if !strings.HasPrefix(name, t.prefix) {
				continue
			}
			old := st.heap[name]
			fresh := e.sym.Fresh("Hchain!"+name, old.Sort)
			var neqs []string
			for _, o := range others {
				neqs = append(neqs, fmt.Sprintf("(not (= qr %s))", o.S))
			}
			q := fmt.Sprintf("(forall ((qr Int)) (! (=> (and %s (< qr %s)) (= (select %s qr) (select %s qr))) :pattern ((select %s qr))))",
				strings.Join(neqs, " "), entryNext.S, fresh.S, old.S, fresh.S)
			st.heap[name] = fresh
			st.Assume(Term{q, SBool})
		}
	}
	for prefix := range compTargets {
		// the component may not have been touched yet on this path: it then keeps its name but
		// must not be the initial heap any more
		found := false
		for _, name := range names {
			if strings.HasPrefix(name, prefix) {
				st.heap[name] = e.sym.Fresh("Hloop!"+name, st.heap[name].Sort)
				found = true
			}
		}
		if !found {
			st.pendingHavoc = append(st.pendingHavoc, prefix)
		}
	}
	for prefix := range types_ {
		for _, name := range names {
			if strings.HasPrefix(name, prefix) {
				st.heap[name] = e.sym.Fresh("Hloop!"+name, st.heap[name].Sort)
			}
		}
	}
	for _, t := range objs {
		if types_[t.prefix] {
			continue
		}
		for _, name := range names {
			if strings.HasPrefix(name, t.prefix) {
				h := st.heap[name]
				fresh := e.sym.Fresh("loopobj", elemSort(h.Sort))
				e.typeObj(fresh, name)
				st.heap[name] = Store(h, t.ref, fresh)
			}
		}
	}
	// new objects may have been allocated by earlier iterations
	nx := e.sym.Fresh("next", SInt)
	st.Assume(Ge(nx, st.next))
	st.next = nx
}

// invariantFieldLoad: v is `*(&p.f.g)` evaluated inside the loop with p defined outside and no store
// in the loop writing to p's struct type: returns the value of that field at the loop head.
func (e *Engine) invariantFieldLoad(st *State, fr *Frame, v ssa.Value, inLoop func(ssa.Value) bool, body map[*ssa.BasicBlock]bool) (Value, bool) {
	ld, ok := v.(*ssa.UnOp)
	if !ok || ld.Op != token.MUL {
		return nil, false
	}
	var fields []string
	addr := ld.X
	for {
		fa, ok := addr.(*ssa.FieldAddr)
		if !ok {
			break
		}
		stt := under(fa.X.Type()).(*types.Pointer).Elem().Underlying().(*types.Struct)
		fields = append([]string{stt.Field(fa.Field).Name()}, fields...)
		addr = fa.X
	}
	if len(fields) == 0 || inLoop(addr) {
		return nil, false
	}
	pv, ok := fr.vals[addr]
	if !ok {
		return nil, false
	}
	p, ok := pv.(VPtr)
	if !ok || p.ArrLen >= 0 {
		return nil, false
	}
	// no store in the loop may write the loaded field of an object of the root struct type
	rootPrefix := "A!" + heapTypeName(p.Root) + "!"
	loaded := rootPrefix
	{
		pp, _ := pathPrefix(p.Path)
		loaded += pp
		for _, f := range fields {
			loaded += "." + f
		}
	}
	overlaps := func(w string) bool {
		return w == "" || strings.HasPrefix(w, loaded) || strings.HasPrefix(loaded, w)
	}
	for b := range body {
		for _, in := range b.Instrs {
			switch x := in.(type) {
			case *ssa.Store:
				if overlaps(storeCompPrefix(x.Addr)) {
					return nil, false
				}
			case *ssa.Call:
				if ws, ok := e.contractWrites(x.Common()); ok {
					bad := false
					for _, w := range ws {
						if overlaps(w) {
							bad = true
						}
					}
					if bad {
						return nil, false
					}
					continue
				}
				if !e.callIsPure(fr, x.Common()) {
					if bi, ok := x.Common().Value.(*ssa.Builtin); ok {
						switch bi.Name() {
						case "append", "copy":
							if sl, ok := under(x.Common().Args[0].Type()).(*types.Slice); ok && "A!"+heapTypeName(sl.Elem())+"!" != rootPrefix {
								continue
							}
						case "delete":
							continue
						}
					}
					return nil, false
				}
			}
		}
	}
	np := p
	for _, f := range fields {
		np.Path = append(append([]Step{}, np.Path...), Step{Field: f})
	}
	var val Value
	func() {
		defer func() {
			if r := recover(); r != nil {
				val = nil
			}
		}()
		val = e.loadPtr(st, np, nil)
	}()
	if val == nil {
		return nil, false
	}
	return val, true
}

// appendChainEntry recognises x = append(x, ...) chains: b must be a phi of the loop head whose
// values inside the loop all derive from b by append; the value flowing in from outside is returned.
func appendChainEntry(b ssa.Value, head *ssa.BasicBlock, inLoop func(ssa.Value) bool) ssa.Value {
	phi, ok := b.(*ssa.Phi)
	if !ok || phi.Block() != head {
		return nil
	}
	var entry ssa.Value
	visited := map[ssa.Value]bool{}
	var derives func(v ssa.Value) bool
	derives = func(v ssa.Value) bool {
		if v == b {
			return true
		}
		if visited[v] {
			return true
		}
		visited[v] = true
		switch x := v.(type) {
		case *ssa.Call:
			if bi, ok := x.Common().Value.(*ssa.Builtin); ok && bi.Name() == "append" {
				return derives(x.Common().Args[0])
			}
		case *ssa.Phi:
			if !inLoop(x) {
				return false
			}
			for _, ed := range x.Edges {
				if !derives(ed) {
					return false
				}
			}
			return true
		}
		return false
	}
	for _, ed := range phi.Edges {
		if inLoop(ed) || ed == b {
			if !derives(ed) {
				return nil
			}
			continue
		}
		if entry != nil && entry != ed {
			return nil
		}
		entry = ed
	}
	return entry
}

// storeRoot returns the heap prefix ("A!<root type>!") written by a store through addr, and the
// SSA value denoting the written object (pointer, slice or alloc), or "" when unknown.
func storeRoot(addr ssa.Value) (string, ssa.Value, types.Type) {
	for {
		switch a := addr.(type) {
		case *ssa.IndexAddr:
			switch xt := under(a.X.Type()).(type) {
			case *types.Slice:
				return "A!" + heapTypeName(xt.Elem()) + "!", a.X, xt.Elem()
			case *types.Pointer:
				addr = a.X
				continue
			}
			return "", nil, nil
		case *ssa.FieldAddr:
			addr = a.X
			continue
		default:
			pt, ok := under(addr.Type()).(*types.Pointer)
			if !ok {
				return "", nil, nil
			}
			root := pt.Elem()
			if at, ok := under(root).(*types.Array); ok {
				root = at.Elem()
			}
			return "A!" + heapTypeName(root) + "!", addr, root
		}
	}
}

// storeCompPrefix: the heap component prefix written by a store through addr, including the field
// path below the root ("A!bucket[V]!.minExpiresAt").
func storeCompPrefix(addr ssa.Value) string {
	var fields []string
	for {
		switch a := addr.(type) {
		case *ssa.FieldAddr:
			stt := under(a.X.Type()).(*types.Pointer).Elem().Underlying().(*types.Struct)
			fields = append([]string{"." + stt.Field(a.Field).Name()}, fields...)
			addr = a.X
			continue
		case *ssa.IndexAddr:
			if _, isPtr := under(a.X.Type()).(*types.Pointer); isPtr {
				if len(fields) > 0 {
					fields = append([]string{"[]"}, fields...)
				}
				addr = a.X
				continue
			}
		}
		break
	}
	root, _, _ := storeRoot(addr)
	if root == "" {
		return ""
	}
	return root + strings.Join(fields, "")
}

// contractWrites: for a call to a function under contract whose modifies clauses are all of the form
// p.f (p a pointer parameter), the component prefixes it may write; ok=false otherwise.
func (e *Engine) contractWrites(c *ssa.CallCommon) ([]string, bool) {
	callee := c.StaticCallee()
	if callee == nil {
		return nil, false
	}
	target := originOf(callee)
	ct := e.cs.Funcs[fullKey(target)]
	if ct == nil || ct.Inline || ct.ModAll || ct.NoFrame {
		return nil, false
	}
	if len(ct.Ensures) == 0 && len(ct.Modifies) == 0 && !ct.Pure {
		return nil, false
	}
	var out []string
	paramType := func(name string) types.Type {
		for _, p := range target.Params {
			if p.Name() == name {
				return p.Type()
			}
		}
		return nil
	}
	// static type of a modifies operand: a parameter or a field of a pointer parameter
	operandType := func(x Expr) types.Type {
		switch n := x.(type) {
		case EIdent:
			return paramType(n.Name)
		case ESel:
			id, ok := n.X.(EIdent)
			if !ok {
				return nil
			}
			ptr, ok := paramType(id.Name).(*types.Pointer)
			if !ok {
				return nil
			}
			st, ok := ptr.Elem().Underlying().(*types.Struct)
			if !ok {
				return nil
			}
			for i := 0; i < st.NumFields(); i++ {
				if st.Field(i).Name() == n.Name {
					return st.Field(i).Type()
				}
			}
		}
		return nil
	}
	for _, m := range ct.Modifies {
		switch n := m.(type) {
		case ESel:
			id, ok := n.X.(EIdent)
			if !ok {
				return nil, false
			}
			ptr, ok := paramType(id.Name).(*types.Pointer)
			if !ok {
				return nil, false
			}
			out = append(out, "A!"+heapTypeName(ptr.Elem())+"!."+n.Name)
		case ECall:
			if (n.Fn != "all" && n.Fn != "elems") || len(n.Args) != 1 {
				return nil, false
			}
			t := operandType(n.Args[0])
			if t == nil {
				return nil, false
			}
			switch u := under(t).(type) {
			case *types.Slice:
				out = append(out, "A!"+heapTypeName(u.Elem())+"!")
			case *types.Map:
				out = append(out, "M!"+heapTypeName(u.Key())+"!"+heapTypeName(u.Elem())+"!")
			case *types.Pointer:
				out = append(out, "A!"+heapTypeName(u.Elem())+"!")
			default:
				return nil, false
			}
		default:
			return nil, false
		}
	}
	return out, true
}

func (e *Engine) havocAllHeap(st *State, why string) {
	names := make([]string, 0, len(st.heap))
	for n := range st.heap {
		names = append(names, n)
	}
	sort.Strings(names)
	// local cells (Alloc'd variables of the function under execution that have not escaped) survive
	var locals []localCell
	for _, lc := range st.locals {
		locals = append(locals, lc)
	}
	sort.Slice(locals, func(i, j int) bool { return locals[i].ref.S < locals[j].ref.S })
	for _, n := range names {
		old := st.heap[n]
		fresh := e.sym.Fresh("Hhavoc!"+n, old.Sort)
		for _, lc := range locals {
			if strings.HasPrefix(n, lc.prefix) {
				fresh = Store(fresh, lc.ref, Select(old, lc.ref))
			}
		}
		if fresh.S != st.heap[n].S {
			e.heapSet(st, n, fresh)
		}
	}
	// heap components not yet touched on this path keep their initial constant, which would be
	// unsound after a havoc: mark the state so that later first uses get fresh constants.
	st.epoch = e.sym.Fresh("epoch", SInt).S
	nx := e.sym.Fresh("next", SInt)
	st.Assume(Ge(nx, st.next))
	st.next = nx
}

func rangeKeyName(rs *ast.RangeStmt) string {
	if id, ok := rs.Key.(*ast.Ident); ok {
		return id.Name
	}
	return ""
}

// multipleOfPow2 recognises terms of the form (* t 2^j) and (mod (* t 2^j) 2^n): multiples of 2^j.
func multipleOfPow2(t Term) (uint, bool) {
	s := t.S
	if strings.HasPrefix(s, "(mod ") {
		parts := splitTop(s[1 : len(s)-1])
		if len(parts) != 3 {
			return 0, false
		}
		n, ok := Term{parts[2], SInt}.IsLit()
		if !ok || n.Sign() <= 0 || n.BitLen()-1 != int(n.TrailingZeroBits()) {
			return 0, false
		}
		j, ok := multipleOfPow2(Term{parts[1], SInt})
		if !ok || int(j) > n.BitLen()-1 {
			return 0, false
		}
		return j, true
	}
	if strings.HasPrefix(s, "(* ") {
		parts := splitTop(s[1 : len(s)-1])
		if len(parts) != 3 {
			return 0, false
		}
		for _, p := range parts[1:] {
			if n, ok := (Term{p, SInt}).IsLit(); ok && n.Sign() > 0 && n.BitLen()-1 == int(n.TrailingZeroBits()) {
				return uint(n.BitLen() - 1), true
			}
		}
	}
	return 0, false
}

// belowPow2 recognises terms (mod t 2^m) (values in [0, 2^m)).
func belowPow2(t Term) (uint, bool) {
	s := t.S
	if strings.HasPrefix(s, "(mod ") {
		parts := splitTop(s[1 : len(s)-1])
		if len(parts) == 3 {
			if n, ok := (Term{parts[2], SInt}).IsLit(); ok && n.Sign() > 0 && n.BitLen()-1 == int(n.TrailingZeroBits()) {
				return uint(n.BitLen() - 1), true
			}
		}
	}
	if n, ok := t.IsLit(); ok && n.Sign() >= 0 {
		return uint(n.BitLen()), true
	}
	return 0, false
}

type bitInfo struct {
	k   Term
	w   uint
	inv bool
}

func (e *Engine) noteBit(r, k Term, w uint, inv bool) {
	if e.bits == nil {
		e.bits = map[string]bitInfo{}
	}
	e.bits[r.S] = bitInfo{k, w, inv}
}

// ptrUntouched reports whether every heap component the pointer reads is still the initial heap.
func (e *Engine) ptrUntouched(st *State, p VPtr) bool {
	if st.epoch != "" {
		return false
	}
	var t types.Type
	func() {
		defer func() { recover() }()
		t = pointeeType(p)
	}()
	if t == nil {
		return false
	}
	prefix, _ := pathPrefix(p.Path)
	for _, c := range flatten(t) {
		name := heapName(p.Root, prefix+c.Path)
		if p.ArrLen >= 0 {
			name = heapName(p.Root, c.Path)
		}
		h, ok := st.heap[name]
		if !ok {
			continue
		}
		s := strings.TrimPrefix(h.S, "|")
		if !strings.HasPrefix(s, "H0!") {
			return false
		}
	}
	return true
}

// assertNonNil emits the nil-dereference obligation unless the pointer is non-nil by construction.
func (e *Engine) assertNonNil(st *State, fr *Frame, site string, p VPtr) {
	if p.NonNil {
		return
	}
	e.Assert(st, fr, "deref", site, Neq(p.Ref, TZero))
	st.Assume(Neq(p.Ref, TZero))
}
