package main

// Bounded stand-ins: the contract clause executed on the real functions over an enumerated
// domain (labelled bounded, never counted as proved).

type BoundedFailure struct {
	Class     string      `json:"class"`
	Input     interface{} `json:"input"`
	Observed  string      `json:"observed"`
	ReplayCmd string      `json:"replay_cmd"`
}

type BoundedResult struct {
	Name     string
	Bound    string
	Cases    int
	Distinct int
	Failures []BoundedFailure
	Samples  []interface{}
	Error    string
}

func runBounded(pc *PropConfig, tier string, seed int) []BoundedResult {
	var out []BoundedResult
	for _, name := range pc.Bounded {
		out = append(out, runBoundedOne(name, tier, seed))
	}
	return out
}
