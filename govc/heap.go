package main

import (
	"fmt"
	"go/types"
	"regexp"
	"strings"
)

// ---------------------------------------------------------------------------------------------
// Execution tree

const (
	NAssume = iota
	NAssert
	NBranch
	NEnd
)

type Node struct {
	Kind   int
	T      Term
	Name   string
	Note   string
	Next   *Node
	Kids   []*Node
	Parent *Node
}

// State is the per-path symbolic state.
type State struct {
	heap  map[string]Term
	next  Term
	ghost map[string]Term
	node  *Node
	steps int
	// path-local knowledge of function values: term string -> VFunc
	funcs map[string]VFunc
	dead  bool
	epoch string
	defers []deferred
	facts  map[string]bool
	locals map[string]localCell // copy-on-write
	next0  Term                 // allocation counter at function entry
	pendingHavoc []string      // component prefixes havocked before their first use on this path
}

func (st *State) clone(n *Node) *State {
	c := &State{heap: make(map[string]Term, len(st.heap)), next: st.next, ghost: make(map[string]Term, len(st.ghost)), node: n, steps: st.steps, funcs: st.funcs, epoch: st.epoch, defers: st.defers[:len(st.defers):len(st.defers)]}
	for k, v := range st.heap {
		c.heap[k] = v
	}
	for k, v := range st.ghost {
		c.ghost[k] = v
	}
	if st.facts != nil {
		c.facts = make(map[string]bool, len(st.facts)+4)
		for k, v := range st.facts {
			c.facts[k] = v
		}
	}
	c.learn(n.T)
	c.locals = st.locals
	c.next0 = st.next0
	c.pendingHavoc = st.pendingHavoc
	return c
}

func (st *State) emit(n *Node) {
	n.Parent = st.node
	st.node.Next = n
	st.node = n
}

func (st *State) Assume(t Term) {
	if t.S == "true" {
		return
	}
	st.emit(&Node{Kind: NAssume, T: t})
	st.learn(t)
}

// learn records a fact syntactically (used to prune branches whose condition is already decided).
func (st *State) learn(t Term) {
	if t.Sort != SBool || len(t.S) > 400 {
		return
	}
	if st.facts == nil {
		st.facts = map[string]bool{}
	}
	if strings.HasPrefix(t.S, "(and ") {
		for _, p := range splitTop(t.S[1 : len(t.S)-1])[1:] {
			st.learn(Term{p, SBool})
		}
		return
	}
	if strings.HasPrefix(t.S, "(not ") {
		st.facts[t.S[5:len(t.S)-1]] = false
		return
	}
	st.facts[t.S] = true
}

// known reports whether the truth value of c is already decided syntactically on this path.
func (st *State) known(c Term) (val bool, ok bool) {
	if st.facts == nil {
		return false, false
	}
	if v, ok := st.facts[c.S]; ok {
		return v, true
	}
	if strings.HasPrefix(c.S, "(not ") {
		if v, ok := st.facts[c.S[5:len(c.S)-1]]; ok {
			return !v, true
		}
	}
	return false, false
}

func (st *State) End(note string) {
	st.emit(&Node{Kind: NEnd, Note: note})
	st.dead = true
}

// ---------------------------------------------------------------------------------------------
// Heap components

var reByte = regexp.MustCompile(`\bbyte\b`)
var reRune = regexp.MustCompile(`\brune\b`)

func heapTypeName(t types.Type) string {
	s := typeName(t)
	s = reByte.ReplaceAllString(s, "uint8")
	s = reRune.ReplaceAllString(s, "int32")
	return s
}

func heapName(root types.Type, compPath string) string {
	return "A!" + heapTypeName(root) + "!" + compPath
}

func (e *Engine) heapGet(st *State, name, sort string) Term {
	if t, ok := st.heap[name]; ok {
		return t
	}
	for _, ph := range st.pendingHavoc {
		if strings.HasPrefix(name, ph) {
			// havocked (by a loop) before its first use on this path
			t := e.sym.Fresh("Hloop!"+name, sort)
			st.heap[name] = t
			return t
		}
	}
	// initial heap component: a constant shared by all paths (per havoc epoch)
	t := e.sym.Const("H0!"+st.epoch+name, sort)
	st.heap[name] = t
	return t
}

func (e *Engine) heapSet(st *State, name string, t Term) {
	// name the new heap to keep terms small
	if len(t.S) > 200 {
		h := e.sym.Fresh("H!"+name, t.Sort)
		st.Assume(Eq(h, t))
		t = h
	}
	st.heap[name] = t
}

// pathPrefix renders the steps as a component path prefix and returns the index terms.
func pathPrefix(path []Step) (string, []Term) {
	var sb strings.Builder
	var idx []Term
	for _, s := range path {
		if s.Field != "" {
			sb.WriteString("." + s.Field)
		} else {
			sb.WriteString("[]")
			idx = append(idx, s.Index)
		}
	}
	return sb.String(), idx
}

func wrapArr(sort string, k int) string {
	for i := 0; i < k; i++ {
		sort = arrOf(sort)
	}
	return sort
}

// pointeeType computes the type a pointer points to.
func pointeeType(p VPtr) types.Type {
	if p.ArrLen >= 0 {
		return types.NewArray(p.Root, p.ArrLen)
	}
	t := p.Root
	for _, s := range p.Path {
		if s.Field != "" {
			st := t.Underlying().(*types.Struct)
			found := false
			for i := 0; i < st.NumFields(); i++ {
				if st.Field(i).Name() == s.Field {
					t = st.Field(i).Type()
					found = true
					break
				}
			}
			if !found {
				panic("pointeeType: no field " + s.Field)
			}
		} else {
			t = t.Underlying().(*types.Array).Elem()
		}
	}
	return t
}

func selectN(t Term, idx []Term) Term {
	for _, i := range idx {
		t = Select(t, i)
	}
	return t
}

func storeN(t Term, idx []Term, v Term) Term {
	if len(idx) == 0 {
		return v
	}
	inner := storeN(Select(t, idx[0]), idx[1:], v)
	return Store(t, idx[0], inner)
}

// loadPtr loads the value of type t the pointer points to.
func (e *Engine) loadPtr(st *State, p VPtr, heap map[string]Term) Value {
	get := func(name, sort string) Term {
		if heap == nil {
			return e.heapGet(st, name, sort)
		}
		if t, ok := heap[name]; ok {
			return t
		}
		t := e.sym.Const("H0!"+name, sort)
		heap[name] = t
		return t
	}
	if p.ArrLen >= 0 {
		if p.Idx.S != "0" && p.ArrLen > 64 {
			panic(unsupported("load of a large array through a pointer with non-zero base"))
		}
		var comps []Term
		for _, c := range flatten(p.Root) {
			h := get(heapName(p.Root, c.Path), arrOf(arrOf(c.Sort)))
			obj := Select(h, p.Ref)
			if p.Idx.S == "0" {
				comps = append(comps, obj)
				continue
			}
			// re-base element by element
			a := zeroOfSort(arrOf(c.Sort))
			for i := int64(0); i < p.ArrLen; i++ {
				a = Store(a, IntLit(i), Select(obj, Add(p.Idx, IntLit(i))))
			}
			comps = append(comps, a)
		}
		return VArr{N: p.ArrLen, Elem: p.Root, Comps: comps}
	}
	t := pointeeType(p)
	prefix, idx := pathPrefix(p.Path)
	var ts []Term
	for _, c := range flatten(t) {
		full := wrapArr(c.Sort, len(idx))
		h := get(heapName(p.Root, prefix+c.Path), arrOf(arrOf(full)))
		cell := Select(Select(h, p.Ref), p.Idx)
		ts = append(ts, selectN(cell, idx))
	}
	if st != nil && !st.dead {
		// name large loaded terms: a value that is used many times (a [32]byte field compared
		// element by element, a pointer that heads a long access path in an invariant) would
		// otherwise repeat its whole access path at every use. Terms under a quantifier (they
		// mention a bound variable q!...) cannot be named outside it.
		for i := range ts {
			if st.node != nil && len(ts[i].S) > loadCompactThreshold && !reBoundVar.MatchString(ts[i].S) {
				c := e.sym.Fresh("ld", ts[i].Sort)
				st.Assume(Eq(c, ts[i]))
				ts[i] = c
			}
		}
	}
	v, _ := fromTerms(ts, t)
	return v
}

func (e *Engine) storePtr(st *State, p VPtr, v Value) {
	if p.ReadOnly {
		panic(unsupported("store through snapshot pointer"))
	}
	if p.ArrLen >= 0 {
		if p.Idx.S != "0" && p.ArrLen > 64 {
			panic(unsupported("store of a large array through a pointer with non-zero base"))
		}
		a := v.(VArr)
		for i, c := range flatten(p.Root) {
			name := heapName(p.Root, c.Path)
			h := e.heapGet(st, name, arrOf(arrOf(c.Sort)))
			if p.Idx.S == "0" && p.NonNil {
				// a freshly allocated array object: replace the whole object
				e.heapSet(st, name, Store(h, p.Ref, a.Comps[i]))
				continue
			}
			if p.ArrLen > 64 {
				panic(unsupported("store of a large array through a pointer"))
			}
			obj := Select(h, p.Ref)
			for k := int64(0); k < p.ArrLen; k++ {
				obj = Store(obj, Add(p.Idx, IntLit(k)), Select(a.Comps[i], IntLit(k)))
			}
			e.heapSet(st, name, Store(h, p.Ref, obj))
		}
		return
	}
	t := pointeeType(p)
	prefix, idx := pathPrefix(p.Path)
	ts := toTerms(v, t)
	for i, c := range flatten(t) {
		full := wrapArr(c.Sort, len(idx))
		name := heapName(p.Root, prefix+c.Path)
		h := e.heapGet(st, name, arrOf(arrOf(full)))
		obj := Select(h, p.Ref)
		cell := Select(obj, p.Idx)
		newCell := storeN(cell, idx, ts[i])
		e.heapSet(st, name, Store(h, p.Ref, Store(obj, p.Idx, newCell)))
	}
}

// elemPtr returns the pointer to element i of slice s with element type et.
func elemPtr(s VSlice, i Term, et types.Type) VPtr {
	return VPtr{Ref: s.Arr, Idx: Add(s.Off, i), Root: et, ArrLen: -1, NonNil: true}
}

// alloc allocates a fresh object whose elements (all indices) are zero values of et.
func (e *Engine) alloc(st *State, et types.Type, hint string) Term {
	r := e.sym.Fresh("ref!"+hint, SInt)
	st.Assume(Ge(r, st.next))
	st.Assume(Gt(r, TZero))
	st.next = Add(r, TOne)
	for _, c := range flatten(et) {
		name := heapName(et, c.Path)
		h := e.heapGet(st, name, arrOf(arrOf(c.Sort)))
		e.heapSet(st, name, Store(h, r, zeroOfSort(arrOf(c.Sort))))
	}
	// a fresh object is local (unreachable from outside) until a reference to it escapes
	nl := make(map[string]localCell, len(st.locals)+1)
	for k, v := range st.locals {
		nl[k] = v
	}
	nl[r.S] = localCell{ref: r, prefix: "A!" + heapTypeName(et) + "!"}
	st.locals = nl
	return r
}

type localCell struct {
	ref    Term
	prefix string
}

// escape marks every local object referenced by v as escaped (reachable by unknown code).
func (st *State) escape(v Value) {
	if len(st.locals) == 0 {
		return
	}
	drop := func(ref Term) {
		if _, ok := st.locals[ref.S]; ok {
			nl := make(map[string]localCell, len(st.locals))
			for k, v := range st.locals {
				if k != ref.S {
					nl[k] = v
				}
			}
			st.locals = nl
		}
	}
	switch x := v.(type) {
	case VPtr:
		drop(x.Ref)
	case VSlice:
		drop(x.Arr)
		if strings.HasPrefix(x.Arr.S, "(ite ") {
			// append results: either branch
			for _, p := range splitTop(x.Arr.S[1 : len(x.Arr.S)-1])[2:] {
				drop(Term{p, SInt})
			}
		}
	case VFunc:
		for _, b := range x.Bind {
			st.escape(b)
		}
	case VStruct:
		for _, f := range x.F {
			st.escape(f)
		}
	case VIface:
		if x.Dyn != nil {
			st.escape(x.Dyn)
		}
	case VTuple:
		for _, f := range x {
			st.escape(f)
		}
	case Term:
		if _, ok := st.locals[x.S]; ok {
			drop(x)
		}
	}
}

// allocFacts: a ref-typed value read from the pre-existing heap or received as input is allocated.
func (e *Engine) allocFacts(st *State, v Value, t types.Type) []Term {
	var out []Term
	ts := toTerms(v, t)
	for i, c := range flatten(t) {
		if c.Kind == "ref" {
			out = append(out, Lt(ts[i], st.next))
		}
	}
	return out
}

func (e *Engine) freshValue(st *State, t types.Type, hint string) Value {
	var ts []Term
	for _, c := range flatten(t) {
		ts = append(ts, e.sym.Fresh(hint+c.Path, c.Sort))
	}
	v, _ := fromTerms(ts, t)
	return v
}

// freshTyped returns a fresh value with its typing facts assumed.
func (e *Engine) freshTyped(st *State, t types.Type, hint string) Value {
	v := e.freshValue(st, t, hint)
	for _, f := range rangeFacts(v, t) {
		st.Assume(f)
	}
	for _, f := range e.allocFacts(st, v, t) {
		st.Assume(f)
	}
	return v
}

func fmtPtr(p VPtr) string {
	return fmt.Sprintf("ptr(%s,%s,%s,%v,%d)", p.Ref.S, p.Idx.S, typeName(p.Root), p.Path, p.ArrLen)
}

// loadCompactThreshold: loaded terms longer than this many characters are named by a fresh constant.
const loadCompactThreshold = 150

// reBoundVar matches the names the generator gives to quantified variables.
var reBoundVar = regexp.MustCompile(`q!|(^|[ (])(qk|qr|qi|ti|tr)([ )]|$)`)
