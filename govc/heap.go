package main

import (
	"fmt"
	"go/types"
	"regexp"
	"strings"
)

// ---------------------------------------------------------------------------------------------
// Execution tree

const (
	NAssume = iota
	NAssert
	NBranch
	NEnd
)

type Node struct {
	Kind   int
	T      Term
	Name   string
	Note   string
	Next   *Node
	Kids   []*Node
	Parent *Node
}

// State is the per-path symbolic state.
type State struct {
	heap  map[string]Term
	next  Term
	ghost map[string]Term
	node  *Node
	steps int
	// path-local knowledge of function values: term string -> VFunc
	funcs map[string]VFunc
	dead  bool
	epoch string
	defers []deferred
}

func (st *State) clone(n *Node) *State {
	c := &State{heap: make(map[string]Term, len(st.heap)), next: st.next, ghost: make(map[string]Term, len(st.ghost)), node: n, steps: st.steps, funcs: st.funcs, epoch: st.epoch, defers: st.defers[:len(st.defers):len(st.defers)]}
	for k, v := range st.heap {
		c.heap[k] = v
	}
	for k, v := range st.ghost {
		c.ghost[k] = v
	}
	return c
}

func (st *State) emit(n *Node) {
	n.Parent = st.node
	st.node.Next = n
	st.node = n
}

func (st *State) Assume(t Term) {
	if t.S == "true" {
		return
	}
	st.emit(&Node{Kind: NAssume, T: t})
}

func (st *State) End(note string) {
	st.emit(&Node{Kind: NEnd, Note: note})
	st.dead = true
}

// ---------------------------------------------------------------------------------------------
// Heap components

var reByte = regexp.MustCompile(`\bbyte\b`)
var reRune = regexp.MustCompile(`\brune\b`)

func heapTypeName(t types.Type) string {
	s := typeName(t)
	s = reByte.ReplaceAllString(s, "uint8")
	s = reRune.ReplaceAllString(s, "int32")
	return s
}

func heapName(root types.Type, compPath string) string {
	return "A!" + heapTypeName(root) + "!" + compPath
}

func (e *Engine) heapGet(st *State, name, sort string) Term {
	if t, ok := st.heap[name]; ok {
		return t
	}
	// initial heap component: a constant shared by all paths (per havoc epoch)
	t := e.sym.Const("H0!"+st.epoch+name, sort)
	st.heap[name] = t
	return t
}

func (e *Engine) heapSet(st *State, name string, t Term) {
	// name the new heap to keep terms small
	if len(t.S) > 200 {
		h := e.sym.Fresh("H!"+name, t.Sort)
		st.Assume(Eq(h, t))
		t = h
	}
	st.heap[name] = t
}

// pathPrefix renders the steps as a component path prefix and returns the index terms.
func pathPrefix(path []Step) (string, []Term) {
	var sb strings.Builder
	var idx []Term
	for _, s := range path {
		if s.Field != "" {
			sb.WriteString("." + s.Field)
		} else {
			sb.WriteString("[]")
			idx = append(idx, s.Index)
		}
	}
	return sb.String(), idx
}

func wrapArr(sort string, k int) string {
	for i := 0; i < k; i++ {
		sort = arrOf(sort)
	}
	return sort
}

// pointeeType computes the type a pointer points to.
func pointeeType(p VPtr) types.Type {
	if p.ArrLen >= 0 {
		return types.NewArray(p.Root, p.ArrLen)
	}
	t := p.Root
	for _, s := range p.Path {
		if s.Field != "" {
			st := t.Underlying().(*types.Struct)
			found := false
			for i := 0; i < st.NumFields(); i++ {
				if st.Field(i).Name() == s.Field {
					t = st.Field(i).Type()
					found = true
					break
				}
			}
			if !found {
				panic("pointeeType: no field " + s.Field)
			}
		} else {
			t = t.Underlying().(*types.Array).Elem()
		}
	}
	return t
}

func selectN(t Term, idx []Term) Term {
	for _, i := range idx {
		t = Select(t, i)
	}
	return t
}

func storeN(t Term, idx []Term, v Term) Term {
	if len(idx) == 0 {
		return v
	}
	inner := storeN(Select(t, idx[0]), idx[1:], v)
	return Store(t, idx[0], inner)
}

// loadPtr loads the value of type t the pointer points to.
func (e *Engine) loadPtr(st *State, p VPtr, heap map[string]Term) Value {
	get := func(name, sort string) Term {
		if heap == nil {
			return e.heapGet(st, name, sort)
		}
		if t, ok := heap[name]; ok {
			return t
		}
		t := e.sym.Const("H0!"+name, sort)
		heap[name] = t
		return t
	}
	if p.ArrLen >= 0 {
		if p.Idx.S != "0" {
			panic(unsupported("load of array through pointer with non-zero base"))
		}
		var comps []Term
		for _, c := range flatten(p.Root) {
			h := get(heapName(p.Root, c.Path), arrOf(arrOf(c.Sort)))
			comps = append(comps, Select(h, p.Ref))
		}
		return VArr{N: p.ArrLen, Elem: p.Root, Comps: comps}
	}
	t := pointeeType(p)
	prefix, idx := pathPrefix(p.Path)
	var ts []Term
	for _, c := range flatten(t) {
		full := wrapArr(c.Sort, len(idx))
		h := get(heapName(p.Root, prefix+c.Path), arrOf(arrOf(full)))
		cell := Select(Select(h, p.Ref), p.Idx)
		ts = append(ts, selectN(cell, idx))
	}
	v, _ := fromTerms(ts, t)
	return v
}

func (e *Engine) storePtr(st *State, p VPtr, v Value) {
	if p.ReadOnly {
		panic(unsupported("store through snapshot pointer"))
	}
	if p.ArrLen >= 0 {
		if p.Idx.S != "0" {
			panic(unsupported("store of array through pointer with non-zero base"))
		}
		a := v.(VArr)
		for i, c := range flatten(p.Root) {
			name := heapName(p.Root, c.Path)
			h := e.heapGet(st, name, arrOf(arrOf(c.Sort)))
			e.heapSet(st, name, Store(h, p.Ref, a.Comps[i]))
		}
		return
	}
	t := pointeeType(p)
	prefix, idx := pathPrefix(p.Path)
	ts := toTerms(v, t)
	for i, c := range flatten(t) {
		full := wrapArr(c.Sort, len(idx))
		name := heapName(p.Root, prefix+c.Path)
		h := e.heapGet(st, name, arrOf(arrOf(full)))
		obj := Select(h, p.Ref)
		cell := Select(obj, p.Idx)
		newCell := storeN(cell, idx, ts[i])
		e.heapSet(st, name, Store(h, p.Ref, Store(obj, p.Idx, newCell)))
	}
}

// elemPtr returns the pointer to element i of slice s with element type et.
func elemPtr(s VSlice, i Term, et types.Type) VPtr {
	return VPtr{Ref: s.Arr, Idx: Add(s.Off, i), Root: et, ArrLen: -1, NonNil: true}
}

// alloc allocates a fresh object whose elements (all indices) are zero values of et.
func (e *Engine) alloc(st *State, et types.Type, hint string) Term {
	r := e.sym.Fresh("ref!"+hint, SInt)
	st.Assume(Ge(r, st.next))
	st.Assume(Gt(r, TZero))
	st.next = Add(r, TOne)
	for _, c := range flatten(et) {
		name := heapName(et, c.Path)
		h := e.heapGet(st, name, arrOf(arrOf(c.Sort)))
		e.heapSet(st, name, Store(h, r, zeroOfSort(arrOf(c.Sort))))
	}
	return r
}

// allocFacts: a ref-typed value read from the pre-existing heap or received as input is allocated.
func (e *Engine) allocFacts(st *State, v Value, t types.Type) []Term {
	var out []Term
	ts := toTerms(v, t)
	for i, c := range flatten(t) {
		if c.Kind == "ref" {
			out = append(out, Lt(ts[i], st.next))
		}
	}
	return out
}

func (e *Engine) freshValue(st *State, t types.Type, hint string) Value {
	var ts []Term
	for _, c := range flatten(t) {
		ts = append(ts, e.sym.Fresh(hint+c.Path, c.Sort))
	}
	v, _ := fromTerms(ts, t)
	return v
}

// freshTyped returns a fresh value with its typing facts assumed.
func (e *Engine) freshTyped(st *State, t types.Type, hint string) Value {
	v := e.freshValue(st, t, hint)
	for _, f := range rangeFacts(v, t) {
		st.Assume(f)
	}
	for _, f := range e.allocFacts(st, v, t) {
		st.Assume(f)
	}
	return v
}

func fmtPtr(p VPtr) string {
	return fmt.Sprintf("ptr(%s,%s,%s,%v,%d)", p.Ref.S, p.Idx.S, typeName(p.Root), p.Path, p.ArrLen)
}
