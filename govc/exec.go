package main

import (
	"fmt"
	"go/ast"
	"go/constant"
	"go/token"
	"go/types"
	"math/big"
	"sort"
	"strings"

	"golang.org/x/tools/go/ast/astutil"
	"golang.org/x/tools/go/packages"
	"golang.org/x/tools/go/ssa"
)

type Engine struct {
	unbound map[string]string // contracts that bind to no function: key -> file:line
	prog  *ssa.Program
	pkgs  []*packages.Package
	spkgs map[string]*ssa.Package
	fset  *token.FileSet
	sym   *SymTab
	cs    *ContractSet
	funcs map[string]*ssa.Function // key -> function

	maxPaths int
	paths    int
	notes    map[string]bool // abstraction notes for the function under verification
	assumed  map[string]bool // assumed contracts used (extern models, trusted contracts)
	curRoot  *ssa.Function
	usedSpecs map[string]*SpecFunc
	curInstr  ssa.Instruction
	fuel      int
	bits      map[string]bitInfo // terms known to be single-bit masks (or their complements)
}

type deferred struct {
	fr    *Frame
	instr *ssa.Defer
}

type Frame struct {
	fn         *ssa.Function
	vals       map[ssa.Value]Value
	names      map[string]ssa.Value // source name -> latest SSA value (or address)
	nameAddr   map[string]bool
	nameOver   map[string]Value // overriding bindings (loop heads, results)
	contract   *Contract
	oldHeap    map[string]Term
	oldNext    Term
	loops      *LoopInfo
	prefix     string
	depth      int
	caller     *Frame
	results    []Value
	sites      map[ssa.Instruction]string
	entryNext  Term
	key        string
	unrollLeft map[*ssa.BasicBlock]int
}

type cont func(st *State, results []Value)

// funcKey returns the contract key of a function relative to its package.
func funcKey(fn *ssa.Function) string {
	if o := fn.Origin(); o != nil {
		fn = o
	}
	if fn.Parent() != nil {
		// anonymous function: parentKey$N...
		root := fn
		for root.Parent() != nil {
			root = root.Parent()
		}
		name := fn.Name() // e.g. "parseMessage$1" or "Tell$1"
		rk := funcKey(root)
		if i := strings.Index(name, "$"); i >= 0 {
			return rk + name[i:]
		}
		return rk + "$" + name
	}
	if recv := fn.Signature.Recv(); recv != nil {
		t := recv.Type()
		ptr := false
		if p, ok := t.(*types.Pointer); ok {
			ptr = true
			t = p.Elem()
		}
		name := ""
		if n, ok := t.(*types.Named); ok {
			name = n.Obj().Name()
		} else {
			name = t.String()
		}
		if ptr {
			return "(*" + name + ")." + fn.Name()
		}
		return "(" + name + ")." + fn.Name()
	}
	return fn.Name()
}

func pkgPathOf(fn *ssa.Function) string {
	if o := fn.Origin(); o != nil {
		fn = o
	}
	for fn.Parent() != nil {
		fn = fn.Parent()
	}
	if fn.Pkg != nil {
		return fn.Pkg.Pkg.Path()
	}
	if fn.Object() != nil && fn.Object().Pkg() != nil {
		return fn.Object().Pkg().Path()
	}
	return ""
}

func fullKey(fn *ssa.Function) string { return pkgPathOf(fn) + "." + funcKey(fn) }

func shortPkg(p string) string {
	if i := strings.LastIndex(p, "/"); i >= 0 {
		return p[i+1:]
	}
	return p
}

// displayKey: short package name + key, used in obligation names.
func displayKey(fn *ssa.Function) string { return shortPkg(pkgPathOf(fn)) + "." + funcKey(fn) }

// ---------------------------------------------------------------------------------------------
// Loops

type LoopInfo struct {
	heads    map[*ssa.BasicBlock]int // head -> ordinal
	body     map[*ssa.BasicBlock]map[*ssa.BasicBlock]bool
	backEdge map[[2]*ssa.BasicBlock]bool
	stmts    []ast.Node // for/range statements in source pre-order
}

func computeLoops(fn *ssa.Function) *LoopInfo {
	li := &LoopInfo{heads: map[*ssa.BasicBlock]int{}, body: map[*ssa.BasicBlock]map[*ssa.BasicBlock]bool{}, backEdge: map[[2]*ssa.BasicBlock]bool{}}
	var heads []*ssa.BasicBlock
	for _, b := range fn.Blocks {
		for _, s := range b.Succs {
			if s.Dominates(b) {
				li.backEdge[[2]*ssa.BasicBlock{b, s}] = true
				if _, ok := li.body[s]; !ok {
					li.body[s] = map[*ssa.BasicBlock]bool{s: true}
					heads = append(heads, s)
				}
				// natural loop body: nodes reaching b without passing s
				var stack []*ssa.BasicBlock
				if !li.body[s][b] {
					li.body[s][b] = true
					stack = append(stack, b)
				}
				for len(stack) > 0 {
					x := stack[len(stack)-1]
					stack = stack[:len(stack)-1]
					for _, p := range x.Preds {
						if !li.body[s][p] {
							li.body[s][p] = true
							stack = append(stack, p)
						}
					}
				}
			}
		}
	}
	sort.Slice(heads, func(i, j int) bool { return heads[i].Index < heads[j].Index })
	for i, h := range heads {
		li.heads[h] = i
	}
	if syn := fn.Syntax(); syn != nil {
		var body *ast.BlockStmt
		switch n := syn.(type) {
		case *ast.FuncDecl:
			body = n.Body
		case *ast.FuncLit:
			body = n.Body
		}
		if body != nil {
			ast.Inspect(body, func(n ast.Node) bool {
				switch n.(type) {
				case *ast.FuncLit:
					return false
				case *ast.ForStmt, *ast.RangeStmt:
					li.stmts = append(li.stmts, n)
				}
				return true
			})
		}
	}
	return li
}

// ---------------------------------------------------------------------------------------------
// Site texts (stable obligation names)

func (e *Engine) fileOf(pos token.Pos) *ast.File {
	if !pos.IsValid() {
		return nil
	}
	for _, p := range e.pkgs {
		for _, f := range p.Syntax {
			if f.Pos() <= pos && pos <= f.End() {
				return f
			}
		}
	}
	return nil
}

func (e *Engine) exprTextAt(pos token.Pos, want func(ast.Node) bool) string {
	f := e.fileOf(pos)
	if f == nil {
		return ""
	}
	path, _ := astutil.PathEnclosingInterval(f, pos, pos+1)
	for _, n := range path {
		if want(n) {
			if ex, ok := n.(ast.Expr); ok {
				return strings.Join(strings.Fields(types.ExprString(ex)), "")
			}
		}
	}
	return ""
}

func (e *Engine) computeSites(fn *ssa.Function) map[ssa.Instruction]string {
	type item struct {
		instr ssa.Instruction
		kind  string
		text  string
		pos   token.Pos
	}
	var items []item
	for _, b := range fn.Blocks {
		for _, in := range b.Instrs {
			var kind, text string
			pos := in.Pos()
			switch x := in.(type) {
			case *ssa.IndexAddr:
				kind = "index"
				text = e.exprTextAt(pos, func(n ast.Node) bool { _, ok := n.(*ast.IndexExpr); return ok })
				if text == "" {
					text = e.exprTextAt(pos, func(n ast.Node) bool { _, ok := n.(*ast.RangeStmt); return false && ok })
				}
			case *ssa.Index:
				kind = "index"
				text = e.exprTextAt(pos, func(n ast.Node) bool { _, ok := n.(*ast.IndexExpr); return ok })
			case *ssa.Slice:
				kind = "slice"
				text = e.exprTextAt(pos, func(n ast.Node) bool { _, ok := n.(*ast.SliceExpr); return ok })
			case *ssa.FieldAddr:
				kind = "deref"
				text = e.exprTextAt(pos, func(n ast.Node) bool { _, ok := n.(*ast.SelectorExpr); return ok })
			case *ssa.UnOp:
				if x.Op == token.MUL {
					kind = "deref"
					text = e.exprTextAt(pos, func(n ast.Node) bool {
						switch n.(type) {
						case *ast.StarExpr, *ast.SelectorExpr, *ast.Ident:
							return true
						}
						return false
					})
				} else if x.Op == token.ARROW {
					kind = "recv"
				}
			case *ssa.BinOp:
				if x.Op == token.QUO || x.Op == token.REM {
					kind = "div"
					text = e.exprTextAt(pos, func(n ast.Node) bool { _, ok := n.(*ast.BinaryExpr); return ok })
				}
				if x.Op == token.SHL || x.Op == token.SHR {
					kind = "shift"
					text = e.exprTextAt(pos, func(n ast.Node) bool { _, ok := n.(*ast.BinaryExpr); return ok })
				}
			case *ssa.Panic:
				kind = "panic"
				text = e.exprTextAt(pos, func(n ast.Node) bool { _, ok := n.(*ast.CallExpr); return ok })
			case *ssa.TypeAssert:
				kind = "assert"
				text = e.exprTextAt(pos, func(n ast.Node) bool { _, ok := n.(*ast.TypeAssertExpr); return ok })
			case *ssa.MakeSlice:
				kind = "make"
				text = e.exprTextAt(pos, func(n ast.Node) bool { _, ok := n.(*ast.CallExpr); return ok })
			case *ssa.MapUpdate:
				kind = "mapwrite"
				text = e.exprTextAt(pos, func(n ast.Node) bool { _, ok := n.(*ast.IndexExpr); return ok })
			case *ssa.Call:
				kind = "call"
				text = callName(x.Common())
			case *ssa.Defer:
				kind = "call"
				text = callName(x.Common())
			case *ssa.Go:
				kind = "call"
				text = callName(x.Common())
			case *ssa.Convert:
				kind = "conv"
				text = e.exprTextAt(pos, func(n ast.Node) bool { _, ok := n.(*ast.CallExpr); return ok })
			case *ssa.SliceToArrayPointer:
				kind = "conv"
				text = e.exprTextAt(pos, func(n ast.Node) bool { _, ok := n.(*ast.CallExpr); return ok })
			case *ssa.Select:
				kind = "select"
			case *ssa.Send:
				kind = "send"
			case *ssa.Store:
				kind = "store"
				text = e.exprTextAt(pos, func(n ast.Node) bool {
					switch n.(type) {
					case *ast.StarExpr, *ast.SelectorExpr, *ast.IndexExpr, *ast.Ident:
						return true
					}
					return false
				})
			default:
				continue
			}
			if kind == "" {
				continue
			}
			items = append(items, item{in, kind, text, pos})
		}
	}
	// ordinals by (kind,text) in position order (stable)
	sort.SliceStable(items, func(i, j int) bool { return items[i].pos < items[j].pos })
	count := map[string]int{}
	total := map[string]int{}
	for _, it := range items {
		total[it.kind+":"+it.text]++
	}
	out := map[ssa.Instruction]string{}
	for _, it := range items {
		k := it.kind + ":" + it.text
		n := count[k]
		count[k]++
		s := it.text
		if total[k] > 1 || s == "" {
			s = fmt.Sprintf("%s#%d", it.text, n)
		}
		out[it.instr] = s
	}
	return out
}

// isSSATemp: the name go/ssa gives an unnamed register (t0, t1, ...).
func isSSATemp(n string) bool {
	if len(n) < 2 || n[0] != 't' {
		return false
	}
	for _, ch := range n[1:] {
		if ch < '0' || ch > '9' {
			return false
		}
	}
	return true
}

func callName(c *ssa.CallCommon) string {
	if c.IsInvoke() {
		return c.Method.Name()
	}
	switch v := c.Value.(type) {
	case *ssa.Function:
		return funcKey(v)
	case *ssa.Builtin:
		return v.Name()
	case *ssa.MakeClosure:
		return funcKey(v.Fn.(*ssa.Function))
	}
	if n := c.Value.Name(); n != "" && !isSSATemp(n) {
		return n
	}
	// a function value loaded from a struct field is named after the field
	switch v := c.Value.(type) {
	case *ssa.UnOp:
		if fa, ok := v.X.(*ssa.FieldAddr); ok && v.Op == token.MUL {
			if st, ok := under(fa.X.Type()).(*types.Pointer).Elem().Underlying().(*types.Struct); ok {
				return st.Field(fa.Field).Name()
			}
		}
	case *ssa.Field:
		if st, ok := under(v.X.Type()).(*types.Struct); ok {
			return st.Field(v.Field).Name()
		}
	}
	return "fn"
}

// ---------------------------------------------------------------------------------------------
// Obligations

func (e *Engine) Assert(st *State, fr *Frame, kind, site string, cond Term) {
	name := fr.prefix + "#" + kind
	if site != "" {
		name += ":" + site
	}
	if cond.S == "true" {
		// trivially true: still record it so that the obligation exists
		st.emit(&Node{Kind: NAssert, T: cond, Name: name})
		return
	}
	st.emit(&Node{Kind: NAssert, T: cond, Name: name})
	if cond.S == "false" {
		return
	}
	st.learn(cond)
}

func (e *Engine) note(s string) {
	if e.notes != nil {
		e.notes[s] = true
	}
}

// ---------------------------------------------------------------------------------------------
// Running a function body

func (e *Engine) newFrame(fn *ssa.Function, caller *Frame, prefix string) *Frame {
	fr := &Frame{fn: fn, vals: map[ssa.Value]Value{}, names: map[string]ssa.Value{}, nameAddr: map[string]bool{}, nameOver: map[string]Value{}, caller: caller, prefix: prefix, key: fullKey(fn), unrollLeft: map[*ssa.BasicBlock]int{}}
	if caller != nil {
		fr.depth = caller.depth + 1
	}
	fr.loops = computeLoops(fn)
	fr.sites = e.computeSites(fn)
	fr.contract = e.cs.Funcs[fr.key]
	return fr
}

func (e *Engine) fork(st *State, c Term, yes, no func(*State)) {
	if c.S == "true" {
		yes(st)
		return
	}
	if c.S == "false" {
		no(st)
		return
	}
	if v, ok := st.known(c); ok {
		if v {
			yes(st)
		} else {
			no(st)
		}
		return
	}
	e.paths++
	if e.paths > e.maxPaths {
		panic(unsupported(fmt.Sprintf("path cap exceeded (%d)", e.maxPaths)))
	}
	br := &Node{Kind: NBranch}
	st.emit(br)
	k1 := &Node{Kind: NAssume, T: c, Parent: br}
	k2 := &Node{Kind: NAssume, T: Not(c), Parent: br}
	br.Kids = []*Node{k1, k2}
	s1 := st.clone(k1)
	s2 := st.clone(k2)
	yes(s1)
	no(s2)
	st.dead = true
}

// get returns the symbolic value of an SSA value in the frame.
func (e *Engine) get(st *State, fr *Frame, v ssa.Value) Value {
	switch x := v.(type) {
	case *ssa.Const:
		return e.constValue(x)
	case *ssa.Function:
		return VFunc{Fn: x, ID: e.sym.Const("fn!"+fullKey(x), SInt)}
	case *ssa.Global:
		// pointer to a global cell
		return VPtr{Ref: e.sym.Const("global!"+x.Pkg.Pkg.Path()+"."+x.Name(), SInt), Idx: TZero, Root: x.Type().(*types.Pointer).Elem(), ArrLen: -1, NonNil: true}
	case *ssa.Builtin:
		return VFunc{}
	}
	if val, ok := fr.vals[v]; ok {
		return val
	}
	if fv, ok := v.(*ssa.FreeVar); ok {
		_ = fv
		panic(unsupported("free variable without binding: " + v.Name()))
	}
	panic(unsupported(fmt.Sprintf("value %s (%T) not defined on this path in %s", v.Name(), v, fr.fn.Name())))
}

func (e *Engine) constValue(c *ssa.Const) Value {
	t := c.Type()
	if c.Value == nil {
		return zeroValue(t)
	}
	switch c.Value.Kind() {
	case constant.Bool:
		return BoolLit(constant.BoolVal(c.Value))
	case constant.Int:
		if isInteger(t) {
			n, _ := new(big.Int).SetString(c.Value.ExactString(), 10)
			return BigLit(n)
		}
		if _, ok := t.Underlying().(*types.Basic); ok {
			// float const with integer value
			n, _ := new(big.Int).SetString(c.Value.ExactString(), 10)
			return BigLit(n)
		}
	case constant.String:
		return e.strLit(constant.StringVal(c.Value))
	case constant.Float:
		return e.sym.Const("float!"+c.Value.ExactString(), SInt)
	}
	panic(unsupported("constant " + c.String()))
}

func (e *Engine) strLit(s string) VStr {
	if s == "" {
		return VStr{Term{"str_empty", SStr}}
	}
	if len(s) > 64 {
		// long literals: opaque but with exact length
		c := e.sym.Const("strlit!"+fmt.Sprintf("%x", hashString(s)), SStr)
		return VStr{c}
	}
	arr := "((as const (Array Int Int)) 0)"
	for i := 0; i < len(s); i++ {
		arr = fmt.Sprintf("(store %s %d %d)", arr, i, s[i])
	}
	return VStr{Term{fmt.Sprintf("(mkstr %d %s)", len(s), arr), SStr}}
}

func hashString(s string) uint64 {
	var h uint64 = 14695981039346656037
	for i := 0; i < len(s); i++ {
		h ^= uint64(s[i])
		h *= 1099511628211
	}
	return h
}

// runBlock executes block b (entered from pred) and continues.
func (e *Engine) runBlock(st *State, fr *Frame, b, pred *ssa.BasicBlock, k cont) {
	if st.dead {
		return
	}
	st.steps++
	if st.steps > 20000 {
		panic(unsupported("step cap exceeded"))
	}
	// loop head handling
	if _, isHead := fr.loops.heads[b]; isHead && pred != nil {
		if fr.loops.backEdge[[2]*ssa.BasicBlock{pred, b}] {
			e.loopBackEdge(st, fr, b, pred, k)
			return
		}
		e.loopEntry(st, fr, b, pred, k)
		return
	}
	e.execPhis(st, fr, b, pred)
	e.runInstrs(st, fr, b, firstNonPhi(b), k)
}

func firstNonPhi(b *ssa.BasicBlock) int {
	for i, in := range b.Instrs {
		if _, ok := in.(*ssa.Phi); !ok {
			return i
		}
	}
	return len(b.Instrs)
}

func (e *Engine) execPhis(st *State, fr *Frame, b, pred *ssa.BasicBlock) {
	if pred == nil {
		return
	}
	idx := -1
	for i, p := range b.Preds {
		if p == pred {
			idx = i
		}
	}
	// parallel assignment
	var phis []*ssa.Phi
	var vals []Value
	for _, in := range b.Instrs {
		phi, ok := in.(*ssa.Phi)
		if !ok {
			break
		}
		phis = append(phis, phi)
		vals = append(vals, e.get(st, fr, phi.Edges[idx]))
	}
	for i, phi := range phis {
		fr.vals[phi] = vals[i]
		if phi.Comment != "" {
			fr.names[phi.Comment] = phi
			fr.nameAddr[phi.Comment] = false
			delete(fr.nameOver, phi.Comment)
		}
	}
}

func (e *Engine) runInstrs(st *State, fr *Frame, b *ssa.BasicBlock, i int, k cont) {
	for ; i < len(b.Instrs); i++ {
		if st.dead {
			return
		}
		in := b.Instrs[i]
		e.curInstr = in
		switch x := in.(type) {
		case *ssa.If:
			c := e.get(st, fr, x.Cond).(Term)
			restore := snapshotNames(fr)
			e.fork(st, c,
				func(s *State) { e.runBlock(s, fr, b.Succs[0], b, k) },
				func(s *State) { restore(); e.runBlock(s, fr, b.Succs[1], b, k) })
			return
		case *ssa.Jump:
			e.runBlock(st, fr, b.Succs[0], b, k)
			return
		case *ssa.Return:
			var res []Value
			for _, r := range x.Results {
				res = append(res, e.get(st, fr, r))
			}
			k(st, res)
			return
		case *ssa.Panic:
			e.execPanic(st, fr, x)
			return
		case *ssa.Call:
			// calls are CPS: continue with the rest of the block afterwards
			ii := i
			e.execCall(st, fr, x, x.Common(), func(s *State, res []Value) {
				e.bindCallResult(fr, x, res)
				e.runInstrs(s, fr, b, ii+1, k)
			})
			return
		case *ssa.RunDefers:
			ii := i
			e.runDefers(st, fr, func(s *State) {
				e.runInstrs(s, fr, b, ii+1, k)
			})
			return
		case *ssa.Select:
			ii := i
			e.execSelect(st, fr, x, func(s *State) {
				e.runInstrs(s, fr, b, ii+1, k)
			})
			return
		default:
			e.execInstr(st, fr, in)
		}
	}
}

func (e *Engine) bindCallResult(fr *Frame, call *ssa.Call, res []Value) {
	sig := call.Common().Signature()
	switch sig.Results().Len() {
	case 0:
		fr.vals[call] = VTuple{}
	case 1:
		if len(res) < 1 {
			panic(fmt.Sprintf("call %s returned no results", call))
		}
		fr.vals[call] = res[0]
	default:
		fr.vals[call] = VTuple(res)
	}
}

func (e *Engine) runDefers(st *State, fr *Frame, k func(*State)) {
	n := len(st.defers)
	if n == 0 || st.defers[n-1].fr != fr {
		k(st)
		return
	}
	d := st.defers[n-1]
	st.defers = st.defers[:n-1:n-1]
	e.execCall(st, fr, d.instr, d.instr.Common(), func(s *State, res []Value) {
		e.runDefers(s, fr, k)
	})
}

func (e *Engine) execPanic(st *State, fr *Frame, x *ssa.Panic) {
	allow := false
	if fr.contract != nil && fr.contract.AllowPanic {
		allow = true
	}
	if !allow {
		e.Assert(st, fr, "panic", fr.sites[x], TFalse)
	}
	st.End("panic")
}

// snapshotNames saves the source-name bindings of the frame chain; the returned function
// restores them (name bindings are path-local, the frames are shared between sibling paths).
func snapshotNames(fr *Frame) func() {
	type snap struct {
		fr       *Frame
		names    map[string]ssa.Value
		nameAddr map[string]bool
		nameOver map[string]Value
	}
	var snaps []snap
	for f := fr; f != nil; f = f.caller {
		s := snap{fr: f, names: map[string]ssa.Value{}, nameAddr: map[string]bool{}, nameOver: map[string]Value{}}
		for k, v := range f.names {
			s.names[k] = v
		}
		for k, v := range f.nameAddr {
			s.nameAddr[k] = v
		}
		for k, v := range f.nameOver {
			s.nameOver[k] = v
		}
		snaps = append(snaps, s)
	}
	return func() {
		for _, s := range snaps {
			s.fr.names = map[string]ssa.Value{}
			for k, v := range s.names {
				s.fr.names[k] = v
			}
			s.fr.nameAddr = map[string]bool{}
			for k, v := range s.nameAddr {
				s.fr.nameAddr[k] = v
			}
			s.fr.nameOver = map[string]Value{}
			for k, v := range s.nameOver {
				s.fr.nameOver[k] = v
			}
		}
	}
}
