package main

import (
	"fmt"
	"math/big"
	"os"
	"path/filepath"
	"strconv"
	"strings"
	"unicode"
)

// ---------------------------------------------------------------------------------------------
// Contract files: comment-only Go files /repo/<pkg>/zz_contracts_verif.go, lines starting "//@".

type Contract struct {
	Pkg       string // package import path
	Func      string // function key, e.g. "DistanceCmp", "(*Cache).Expire", "parseMessage$1"
	Requires  []Clause
	Ensures   []Clause
	Modifies  []Expr
	ModAll    bool
	Loops     map[int][]Clause // loop ordinal -> invariants
	LoopMods  map[int]bool
	Inline    bool
	Trusted   bool // contract assumed, body not verified (listed in evidence)
	Pure      bool
	Unroll    int
	FnSpecs   map[string]*FnSpec // function-typed parameter name -> spec
	Ghost     []GhostHook
	NoPanic   bool // explicit panics are obligations (default true); false: panics are allowed exits
	AllowPanic bool
	NoFrame    bool
	AssumeFrame bool // the modifies clause is used at call sites but not checked on the body (listed in evidence)
	Fuel       int
	GhostVars  []GhostSet
	Wakes      []Clause
	Props     []string
	File      string
	Line      int
}

type FnSpec struct {
	Pure     bool
	Requires []Clause
	Ensures  []Clause
	// Preserves: expressions whose value the callback is assumed not to change
	Preserves []Clause
}

type GhostHook struct {
	Preserves []Clause // after-call hooks: expressions the call is assumed not to change
	When   string // "before" | "after"
	Callee string // callee name with ordinal, e.g. "fn#0"
	Assert []Clause
	Assume []Clause
	Sets   []GhostSet
}

// GhostSet: "set name = expr" (ghost variable update inside a hook) / "ghostvar name = expr" (initial value)
type GhostSet struct {
	Name string
	E    Expr
}

type Clause struct {
	Label string
	E     Expr
	Src   string
}

type SpecFunc struct {
	Pkg    string
	Name   string
	Params []SpecParam
	Ret    string // int | bool
	Body   Expr
	Rec    bool
	Src    string
}

type SpecParam struct {
	Name string
	Type string // int | bool | []byte | seq
}

type Lemma struct {
	Pkg      string
	Name     string
	Params   []SpecParam
	Requires []Clause
	Ensures  []Clause
	Induct   string
	BV       bool
}

type TypeInv struct {
	Pkg   string
	Type  string
	Invs  []Clause
	Ghost []SpecParam
	// Chans: per channel-typed field, what holds of every element x sent on it (asserted at
	// sends, assumed at receives)
	Chans map[string]Clause
}

type ContractSet struct {
	Funcs    map[string]*Contract // key pkgpath + "." + Func
	Specs    map[string]*SpecFunc // key name (global namespace per package: pkgpath.name)
	Lemmas   map[string]*Lemma
	TypeInvs map[string]*TypeInv
	Files    []string
}

func NewContractSet() *ContractSet {
	return &ContractSet{Funcs: map[string]*Contract{}, Specs: map[string]*SpecFunc{}, Lemmas: map[string]*Lemma{}, TypeInvs: map[string]*TypeInv{}}
}

// LoadContractFile parses one contract file.
func (cs *ContractSet) LoadContractFile(path, pkgPath string) error {
	data, err := os.ReadFile(path)
	if err != nil {
		return err
	}
	cs.Files = append(cs.Files, path)
	lines := strings.Split(string(data), "\n")
	var cur *Contract
	var curLoop = -1
	var curLemma *Lemma
	var curType *TypeInv
	var curFnSpec *FnSpec
	var curHook *GhostHook
	flushHook := func() {
		if curHook != nil && cur != nil {
			cur.Ghost = append(cur.Ghost, *curHook)
		}
		curHook = nil
	}
	// join continuation lines: a "//@" line whose content starts with at least 6 spaces of
	// indentation continues the previous clause? Keep it simple: a line ending with "\" continues.
	var logical []struct {
		text   string
		line   int
		indent int
	}
	for i := 0; i < len(lines); i++ {
		l := strings.TrimSpace(lines[i])
		if !strings.HasPrefix(l, "//@") {
			continue
		}
		t := strings.TrimPrefix(l, "//@")
		// strip trailing comment
		if k := strings.Index(t, " // "); k >= 0 {
			t = t[:k]
		}
		start := i
		indent := len(t) - len(strings.TrimLeft(t, " \t"))
		for strings.HasSuffix(strings.TrimSpace(t), "\\") && i+1 < len(lines) {
			t = strings.TrimSuffix(strings.TrimSpace(t), "\\")
			i++
			nl := strings.TrimSpace(lines[i])
			nl = strings.TrimPrefix(nl, "//@")
			if k := strings.Index(nl, " // "); k >= 0 {
				nl = nl[:k]
			}
			t += " " + nl
		}
		if strings.TrimSpace(t) == "" {
			continue
		}
		logical = append(logical, struct {
			text   string
			line   int
			indent int
		}{strings.TrimSpace(t), start + 1, indent})
	}
	fail := func(line int, f string, a ...interface{}) error {
		return fmt.Errorf("%s:%d: %s", path, line, fmt.Sprintf(f, a...))
	}
	fnSpecIndent, hookIndent := -1, -1
	for _, ll := range logical {
		t := ll.text
		word, rest := splitWord(t)
		// nested blocks (fnspec, before/after call) end with the first line that is not indented deeper
		if curFnSpec != nil && ll.indent <= fnSpecIndent {
			curFnSpec = nil
		}
		if curHook != nil && ll.indent <= hookIndent {
			flushHook()
		}
		switch word {
		case "func":
			flushHook()
			name := strings.TrimSpace(rest)
			cur = &Contract{Pkg: pkgPath, Func: name, Loops: map[int][]Clause{}, LoopMods: map[int]bool{}, FnSpecs: map[string]*FnSpec{}, File: path, Line: ll.line}
			key := pkgPath + "." + name
			if _, dup := cs.Funcs[key]; dup {
				return fail(ll.line, "duplicate contract for %s", key)
			}
			cs.Funcs[key] = cur
			curLoop = -1
			curLemma, curType, curFnSpec = nil, nil, nil
		case "spec":
			flushHook()
			cur, curLemma, curType, curFnSpec = nil, nil, nil, nil
			sf, err := parseSpecFunc(rest, pkgPath)
			if err != nil {
				return fail(ll.line, "%v", err)
			}
			cs.Specs[pkgPath+"."+sf.Name] = sf
		case "lemma", "bvlemma":
			flushHook()
			cur, curType, curFnSpec = nil, nil, nil
			lm, err := parseLemmaHead(rest, pkgPath)
			if err != nil {
				return fail(ll.line, "%v", err)
			}
			lm.BV = word == "bvlemma"
			cs.Lemmas[pkgPath+"."+lm.Name] = lm
			curLemma = lm
		case "type":
			flushHook()
			cur, curLemma, curFnSpec = nil, nil, nil
			curType = &TypeInv{Pkg: pkgPath, Type: strings.TrimSpace(rest)}
			cs.TypeInvs[pkgPath+"."+curType.Type] = curType
		case "chan":
			// chan <field>: <predicate over x>
			if curType == nil {
				return fail(ll.line, "chan outside a type block")
			}
			i := strings.Index(rest, ":")
			if i < 0 {
				return fail(ll.line, "chan <field>: <predicate>")
			}
			ex, err := ParseExpr(rest[i+1:])
			if err != nil {
				return fail(ll.line, "%v", err)
			}
			if curType.Chans == nil {
				curType.Chans = map[string]Clause{}
			}
			src := strings.TrimSpace(rest[i+1:])
			curType.Chans[strings.TrimSpace(rest[:i])] = Clause{Label: shortLabel(src), E: ex, Src: src}
		case "ghostvar", "set":
			eq := strings.Index(rest, "=")
			if eq < 0 || cur == nil {
				return fail(ll.line, "%s needs 'name = expr' inside a func", word)
			}
			ex, err := ParseExpr(rest[eq+1:])
			if err != nil {
				return fail(ll.line, "%v", err)
			}
			gs := GhostSet{Name: strings.TrimSpace(rest[:eq]), E: ex}
			if word == "set" {
				if curHook == nil {
					return fail(ll.line, "set outside a before/after block")
				}
				curHook.Sets = append(curHook.Sets, gs)
			} else {
				cur.GhostVars = append(cur.GhostVars, gs)
			}
		case "fuel":
			if cur != nil {
				n, err := strconv.Atoi(strings.TrimSpace(rest))
				if err != nil {
					return fail(ll.line, "bad fuel")
				}
				cur.Fuel = n
			}
		case "noframe":
			if cur != nil {
				cur.NoFrame = true
			}
		case "assumeframe":
			if cur != nil {
				cur.AssumeFrame = true
			}
		case "preserves":
			if curFnSpec == nil && curHook == nil {
				return fail(ll.line, "preserves outside an fnspec or after-call block")
			}
			for _, part := range splitCommaTop(rest) {
				ex, err := ParseExpr(part)
				if err != nil {
					return fail(ll.line, "%v in preserves %q", err, part)
				}
				cl := Clause{Label: shortLabel(strings.TrimSpace(part)), E: ex, Src: strings.TrimSpace(part)}
				if curFnSpec != nil {
					curFnSpec.Preserves = append(curFnSpec.Preserves, cl)
				} else {
					curHook.Preserves = append(curHook.Preserves, cl)
				}
			}
		case "requires", "ensures", "invariant", "assert", "assume", "wakes":
			label := ""
			body := rest
			// optional label:  requires [name] expr
			if strings.HasPrefix(strings.TrimSpace(body), "[") {
				b := strings.TrimSpace(body)
				k := strings.Index(b, "]")
				label = b[1:k]
				body = b[k+1:]
			}
			e, err := ParseExpr(body)
			if err != nil {
				return fail(ll.line, "%v in %q", err, body)
			}
			cl := Clause{Label: label, E: e, Src: strings.TrimSpace(body)}
			if cl.Label == "" {
				cl.Label = shortLabel(cl.Src)
			}
			switch {
			case curHook != nil && word == "assert":
				curHook.Assert = append(curHook.Assert, cl)
			case curHook != nil && word == "assume":
				curHook.Assume = append(curHook.Assume, cl)
			case curFnSpec != nil && word == "requires":
				curFnSpec.Requires = append(curFnSpec.Requires, cl)
			case curFnSpec != nil && word == "ensures":
				curFnSpec.Ensures = append(curFnSpec.Ensures, cl)
			case curLemma != nil && word == "requires":
				curLemma.Requires = append(curLemma.Requires, cl)
			case curLemma != nil && word == "ensures":
				curLemma.Ensures = append(curLemma.Ensures, cl)
			case curType != nil && word == "invariant":
				curType.Invs = append(curType.Invs, cl)
			case cur != nil && word == "wakes":
				cur.Wakes = append(cur.Wakes, cl)
			case cur != nil && word == "requires":
				cur.Requires = append(cur.Requires, cl)
			case cur != nil && word == "ensures":
				cur.Ensures = append(cur.Ensures, cl)
			case cur != nil && word == "invariant" && curLoop >= 0:
				cur.Loops[curLoop] = append(cur.Loops[curLoop], cl)
			default:
				return fail(ll.line, "clause %q outside a context", word)
			}
		case "loop":
			flushHook()
			curFnSpec = nil
			if cur == nil {
				return fail(ll.line, "loop outside func")
			}
			r := strings.TrimSuffix(strings.TrimSpace(rest), ":")
			n, err := strconv.Atoi(strings.TrimSpace(r))
			if err != nil {
				return fail(ll.line, "bad loop ordinal %q", r)
			}
			curLoop = n
			if _, ok := cur.Loops[n]; !ok {
				cur.Loops[n] = nil
			}
		case "modifies":
			if cur == nil {
				return fail(ll.line, "modifies outside func")
			}
			r := strings.TrimSpace(rest)
			if r == "*" {
				cur.ModAll = true
				break
			}
			for _, part := range splitCommaTop(r) {
				e, err := ParseExpr(part)
				if err != nil {
					return fail(ll.line, "%v in modifies %q", err, part)
				}
				cur.Modifies = append(cur.Modifies, e)
			}
		case "inline":
			if cur == nil {
				return fail(ll.line, "inline outside func")
			}
			cur.Inline = true
		case "trusted":
			if cur == nil {
				return fail(ll.line, "trusted outside func")
			}
			cur.Trusted = true
		case "pure":
			if curFnSpec != nil {
				curFnSpec.Pure = true
			} else if cur != nil {
				cur.Pure = true
			}
		case "allowpanic":
			if cur != nil {
				cur.AllowPanic = true
			}
		case "unroll":
			if cur == nil {
				return fail(ll.line, "unroll outside func")
			}
			n, err := strconv.Atoi(strings.TrimSpace(rest))
			if err != nil {
				return fail(ll.line, "bad unroll")
			}
			cur.Unroll = n
		case "fnspec":
			flushHook()
			if cur == nil {
				return fail(ll.line, "fnspec outside func")
			}
			name := strings.TrimSuffix(strings.TrimSpace(rest), ":")
			curFnSpec = &FnSpec{}
			fnSpecIndent = ll.indent
			cur.FnSpecs[name] = curFnSpec
		case "before", "after":
			flushHook()
			curFnSpec = nil
			if cur == nil {
				return fail(ll.line, "hook outside func")
			}
			// before call fn#0:
			r := strings.TrimSuffix(strings.TrimSpace(rest), ":")
			r = strings.TrimSpace(strings.TrimPrefix(r, "call"))
			curHook = &GhostHook{When: word, Callee: r}
			hookIndent = ll.indent
		case "induct":
			if curLemma != nil {
				curLemma.Induct = strings.TrimSpace(rest)
			}
		case "prop":
			if cur != nil {
				cur.Props = append(cur.Props, strings.Fields(rest)...)
			}
		case "ghost":
			if curType != nil {
				ps, err := parseParams(rest)
				if err != nil {
					return fail(ll.line, "%v", err)
				}
				curType.Ghost = append(curType.Ghost, ps...)
			}
		default:
			return fail(ll.line, "unknown directive %q", word)
		}
	}
	flushHook()
	return nil
}

func shortLabel(src string) string {
	s := strings.Join(strings.Fields(src), "")
	if len(s) > 60 {
		s = s[:60]
	}
	return s
}

func splitWord(s string) (string, string) {
	s = strings.TrimSpace(s)
	for i, c := range s {
		if unicode.IsSpace(c) {
			return s[:i], s[i+1:]
		}
	}
	return s, ""
}

func splitCommaTop(s string) []string {
	var out []string
	depth := 0
	start := 0
	for i, c := range s {
		switch c {
		case '(', '[':
			depth++
		case ')', ']':
			depth--
		case ',':
			if depth == 0 {
				out = append(out, strings.TrimSpace(s[start:i]))
				start = i + 1
			}
		}
	}
	out = append(out, strings.TrimSpace(s[start:]))
	return out
}

func parseParams(s string) ([]SpecParam, error) {
	var out []SpecParam
	s = strings.TrimSpace(s)
	if s == "" {
		return nil, nil
	}
	var pendingNames []string
	for _, part := range splitCommaTop(s) {
		f := strings.Fields(part)
		if len(f) == 1 {
			pendingNames = append(pendingNames, f[0])
			continue
		}
		if len(f) != 2 {
			return nil, fmt.Errorf("bad parameter %q", part)
		}
		for _, n := range pendingNames {
			out = append(out, SpecParam{n, f[1]})
		}
		pendingNames = nil
		out = append(out, SpecParam{f[0], f[1]})
	}
	if len(pendingNames) > 0 {
		return nil, fmt.Errorf("parameters without type: %v", pendingNames)
	}
	return out, nil
}

// parseSpecFunc parses:  func name(params) ret = expr
func parseSpecFunc(s, pkg string) (*SpecFunc, error) {
	s = strings.TrimSpace(s)
	s = strings.TrimPrefix(s, "func")
	s = strings.TrimSpace(s)
	lp := strings.Index(s, "(")
	if lp < 0 {
		return nil, fmt.Errorf("spec func: missing (")
	}
	name := strings.TrimSpace(s[:lp])
	rp := matchParen(s, lp)
	if rp < 0 {
		return nil, fmt.Errorf("spec func: unbalanced")
	}
	params, err := parseParams(s[lp+1 : rp])
	if err != nil {
		return nil, err
	}
	rest := strings.TrimSpace(s[rp+1:])
	eq := strings.Index(rest, "=")
	ret := "int"
	var body Expr
	if eq >= 0 {
		ret = strings.TrimSpace(rest[:eq])
		body, err = ParseExpr(rest[eq+1:])
		if err != nil {
			return nil, fmt.Errorf("spec func %s: %v", name, err)
		}
	} else {
		ret = strings.TrimSpace(rest)
	}
	if ret == "" {
		ret = "int"
	}
	sf := &SpecFunc{Pkg: pkg, Name: name, Params: params, Ret: ret, Body: body, Src: s}
	if body != nil {
		sf.Rec = exprMentionsCall(body, name)
	}
	return sf, nil
}

func parseLemmaHead(s, pkg string) (*Lemma, error) {
	s = strings.TrimSpace(s)
	lp := strings.Index(s, "(")
	if lp < 0 {
		return nil, fmt.Errorf("lemma: missing (")
	}
	rp := matchParen(s, lp)
	params, err := parseParams(s[lp+1 : rp])
	if err != nil {
		return nil, err
	}
	lm := &Lemma{Pkg: pkg, Name: strings.TrimSpace(s[:lp]), Params: params}
	rest := strings.TrimSpace(s[rp+1:])
	rest = strings.TrimPrefix(rest, ":")
	rest = strings.TrimSpace(rest)
	if rest != "" {
		e, err := ParseExpr(rest)
		if err != nil {
			return nil, err
		}
		lm.Ensures = append(lm.Ensures, Clause{Label: shortLabel(rest), E: e, Src: rest})
	}
	return lm, nil
}

func matchParen(s string, i int) int {
	depth := 0
	for j := i; j < len(s); j++ {
		switch s[j] {
		case '(':
			depth++
		case ')':
			depth--
			if depth == 0 {
				return j
			}
		}
	}
	return -1
}

// FindContractFiles returns the contract files below root, with their package dirs.
func FindContractFiles(root string) ([]string, error) {
	var out []string
	err := filepath.Walk(root, func(p string, info os.FileInfo, err error) error {
		if err != nil {
			return nil
		}
		if info.IsDir() && (info.Name() == ".git" || info.Name() == "testdata") {
			return filepath.SkipDir
		}
		if !info.IsDir() && strings.HasSuffix(info.Name(), "_verif.go") && strings.HasPrefix(info.Name(), "zz_contracts") {
			out = append(out, p)
		}
		return nil
	})
	return out, err
}

// ---------------------------------------------------------------------------------------------
// Expressions

type Expr interface{}

type EIdent struct{ Name string }
type EInt struct{ V *big.Int }
type EBool struct{ V bool }
type ENil struct{}
type EUn struct {
	Op string
	X  Expr
}
type EBin struct {
	Op   string
	L, R Expr
}
type ECall struct {
	Fn   string
	Args []Expr
}
type EIndex struct{ X, I Expr }
type ESlice struct{ X, Lo, Hi Expr }
type ESel struct {
	X    Expr
	Name string
}
type EQuant struct {
	Forall bool
	Vars   []string
	Body   Expr
}
type ECond struct{ C, A, B Expr }

func exprMentionsCall(e Expr, name string) bool {
	found := false
	walkExpr(e, func(x Expr) {
		if c, ok := x.(ECall); ok && c.Fn == name {
			found = true
		}
	})
	return found
}

func walkExpr(e Expr, f func(Expr)) {
	if e == nil {
		return
	}
	f(e)
	switch x := e.(type) {
	case EUn:
		walkExpr(x.X, f)
	case EBin:
		walkExpr(x.L, f)
		walkExpr(x.R, f)
	case ECall:
		for _, a := range x.Args {
			walkExpr(a, f)
		}
	case EIndex:
		walkExpr(x.X, f)
		walkExpr(x.I, f)
	case ESlice:
		walkExpr(x.X, f)
		walkExpr(x.Lo, f)
		walkExpr(x.Hi, f)
	case ESel:
		walkExpr(x.X, f)
	case EQuant:
		walkExpr(x.Body, f)
	case ECond:
		walkExpr(x.C, f)
		walkExpr(x.A, f)
		walkExpr(x.B, f)
	}
}

type lexTok struct {
	kind string // id, int, op, eof
	s    string
}

func lex(s string) ([]lexTok, error) {
	var out []lexTok
	i := 0
	for i < len(s) {
		c := s[i]
		switch {
		case c == ' ' || c == '\t' || c == '\n':
			i++
		case c >= '0' && c <= '9':
			j := i
			if c == '0' && i+1 < len(s) && (s[i+1] == 'x' || s[i+1] == 'X') {
				j = i + 2
				for j < len(s) && (isHex(s[j]) || s[j] == '_') {
					j++
				}
			} else {
				for j < len(s) && (s[j] >= '0' && s[j] <= '9' || s[j] == '_') {
					j++
				}
			}
			out = append(out, lexTok{"int", s[i:j]})
			i = j
		case c == '_' || unicode.IsLetter(rune(c)):
			j := i
			for j < len(s) && (s[j] == '_' || s[j] == '$' || s[j] == '#' || unicode.IsLetter(rune(s[j])) || unicode.IsDigit(rune(s[j]))) {
				j++
			}
			out = append(out, lexTok{"id", s[i:j]})
			i = j
		default:
			ops := []string{"<==>", "==>", "::", "<<", ">>", "&&", "||", "==", "!=", "<=", ">=", "&^", "+", "-", "*", "/", "%", "<", ">", "!", "(", ")", "[", "]", ",", ".", ":", "?", "&", "|", "^"}
			matched := false
			for _, op := range ops {
				if strings.HasPrefix(s[i:], op) {
					out = append(out, lexTok{"op", op})
					i += len(op)
					matched = true
					break
				}
			}
			if !matched {
				return nil, fmt.Errorf("unexpected character %q", c)
			}
		}
	}
	out = append(out, lexTok{"eof", ""})
	return out, nil
}

func isHex(c byte) bool {
	return c >= '0' && c <= '9' || c >= 'a' && c <= 'f' || c >= 'A' && c <= 'F'
}

type parser struct {
	toks []lexTok
	pos  int
}

func ParseExpr(s string) (Expr, error) {
	toks, err := lex(s)
	if err != nil {
		return nil, err
	}
	p := &parser{toks: toks}
	var e Expr
	func() {
		defer func() {
			if r := recover(); r != nil {
				if pe, ok := r.(parseErr); ok {
					err = pe
					return
				}
				panic(r)
			}
		}()
		e = p.parseTop()
		if p.peek().kind != "eof" {
			panic(parseErr{"trailing tokens at " + p.peek().s})
		}
	}()
	return e, err
}

type parseErr struct{ msg string }

func (p parseErr) Error() string { return p.msg }

func (p *parser) peek() lexTok { return p.toks[p.pos] }
func (p *parser) next() lexTok {
	t := p.toks[p.pos]
	p.pos++
	return t
}
func (p *parser) isOp(s string) bool {
	t := p.peek()
	return t.kind == "op" && t.s == s
}
func (p *parser) expectOp(s string) {
	if !p.isOp(s) {
		panic(parseErr{fmt.Sprintf("expected %q, got %q", s, p.peek().s)})
	}
	p.next()
}

func (p *parser) parseTop() Expr {
	t := p.peek()
	if t.kind == "id" && (t.s == "forall" || t.s == "exists") && p.quantAhead() {
		p.next()
		var vars []string
		for {
			v := p.next()
			if v.kind != "id" {
				panic(parseErr{"quantifier: expected variable"})
			}
			// optional type: "k:string" (default int)
			name := v.s
			if p.isOp(":") {
				p.next()
				ty := p.next()
				if ty.kind != "id" {
					panic(parseErr{"quantifier: expected type after ':'"})
				}
				name += ":" + ty.s
			}
			vars = append(vars, name)
			if p.isOp(",") {
				p.next()
				continue
			}
			break
		}
		p.expectOp("::")
		body := p.parseTop()
		return EQuant{Forall: t.s == "forall", Vars: vars, Body: body}
	}
	return p.parseCond()
}

// quantAhead: "forall"/"exists" starts a quantifier only when followed by  ident ( "::" | "," | ":" ).
func (p *parser) quantAhead() bool {
	if p.pos+2 >= len(p.toks) {
		return false
	}
	a, b := p.toks[p.pos+1], p.toks[p.pos+2]
	return a.kind == "id" && b.kind == "op" && (b.s == "::" || b.s == "," || b.s == ":")
}

func (p *parser) parseCond() Expr {
	c := p.parseIff()
	if p.isOp("?") {
		p.next()
		a := p.parseTop()
		p.expectOp(":")
		b := p.parseTop()
		return ECond{c, a, b}
	}
	return c
}

func (p *parser) parseIff() Expr {
	l := p.parseImp()
	for p.isOp("<==>") {
		p.next()
		r := p.parseImp()
		l = EBin{"<==>", l, r}
	}
	return l
}

func (p *parser) parseImp() Expr {
	l := p.parseOr()
	if p.isOp("==>") {
		p.next()
		// right associative; allow quantifier on the right
		var r Expr
		if t := p.peek(); t.kind == "id" && (t.s == "forall" || t.s == "exists") && p.quantAhead() {
			r = p.parseTop()
		} else {
			r = p.parseImp()
		}
		return EBin{"==>", l, r}
	}
	return l
}

func (p *parser) parseOr() Expr {
	l := p.parseAnd()
	for p.isOp("||") {
		p.next()
		r := p.parseAnd()
		l = EBin{"||", l, r}
	}
	return l
}

func (p *parser) parseAnd() Expr {
	l := p.parseCmp()
	for p.isOp("&&") {
		p.next()
		var r Expr
		if t := p.peek(); t.kind == "id" && (t.s == "forall" || t.s == "exists") && p.quantAhead() {
			r = p.parseTop()
		} else {
			r = p.parseCmp()
		}
		l = EBin{"&&", l, r}
	}
	return l
}

func (p *parser) parseCmp() Expr {
	l := p.parseAdd()
	for {
		t := p.peek()
		if t.kind == "op" && (t.s == "==" || t.s == "!=" || t.s == "<" || t.s == "<=" || t.s == ">" || t.s == ">=") {
			p.next()
			r := p.parseAdd()
			l = EBin{t.s, l, r}
			continue
		}
		if t.kind == "id" && t.s == "in" {
			p.next()
			r := p.parseAdd()
			l = EBin{"in", l, r}
			continue
		}
		return l
	}
}

func (p *parser) parseAdd() Expr {
	l := p.parseMul()
	for {
		t := p.peek()
		if t.kind == "op" && (t.s == "+" || t.s == "-" || t.s == "|" || t.s == "^") {
			p.next()
			r := p.parseMul()
			l = EBin{t.s, l, r}
			continue
		}
		return l
	}
}

func (p *parser) parseMul() Expr {
	l := p.parseUnary()
	for {
		t := p.peek()
		if t.kind == "op" && (t.s == "*" || t.s == "/" || t.s == "%" || t.s == "<<" || t.s == ">>" || t.s == "&" || t.s == "&^") {
			p.next()
			r := p.parseUnary()
			l = EBin{t.s, l, r}
			continue
		}
		return l
	}
}

func (p *parser) parseUnary() Expr {
	t := p.peek()
	if t.kind == "op" && (t.s == "!" || t.s == "-" || t.s == "^") {
		p.next()
		x := p.parseUnary()
		return EUn{t.s, x}
	}
	return p.parsePostfix()
}

func (p *parser) parsePostfix() Expr {
	x := p.parsePrimary()
	for {
		switch {
		case p.isOp("."):
			p.next()
			n := p.next()
			if n.kind != "id" {
				panic(parseErr{"expected field name"})
			}
			x = ESel{x, n.s}
		case p.isOp("["):
			p.next()
			var lo, hi Expr
			if !p.isOp(":") {
				lo = p.parseTop()
			}
			if p.isOp(":") {
				p.next()
				if !p.isOp("]") {
					hi = p.parseTop()
				}
				p.expectOp("]")
				x = ESlice{x, lo, hi}
			} else {
				p.expectOp("]")
				x = EIndex{x, lo}
			}
		case p.isOp("("):
			id, ok := x.(EIdent)
			if !ok {
				// method-like call on selector: treat a.f(...) as call "f" with receiver first
				if sel, ok2 := x.(ESel); ok2 {
					p.next()
					args := []Expr{sel.X}
					args = append(args, p.parseArgs()...)
					x = ECall{sel.Name, args}
					continue
				}
				panic(parseErr{"call of non-identifier"})
			}
			p.next()
			x = ECall{id.Name, p.parseArgs()}
		default:
			return x
		}
	}
}

func (p *parser) parseArgs() []Expr {
	var args []Expr
	if p.isOp(")") {
		p.next()
		return args
	}
	for {
		args = append(args, p.parseTop())
		if p.isOp(",") {
			p.next()
			continue
		}
		p.expectOp(")")
		return args
	}
}

func (p *parser) parsePrimary() Expr {
	t := p.next()
	switch t.kind {
	case "int":
		s := strings.ReplaceAll(t.s, "_", "")
		n := new(big.Int)
		if _, ok := n.SetString(s, 0); !ok {
			panic(parseErr{"bad integer " + t.s})
		}
		return EInt{n}
	case "id":
		switch t.s {
		case "true":
			return EBool{true}
		case "false":
			return EBool{false}
		case "nil":
			return ENil{}
		}
		return EIdent{t.s}
	case "op":
		if t.s == "(" {
			e := p.parseTop()
			p.expectOp(")")
			return e
		}
	}
	panic(parseErr{fmt.Sprintf("unexpected token %q", t.s)})
}
