package main

import (
	"go/types"
	"strings"
	"math/big"
	"sync"
)

func bigTwo() *big.Int        { return big.NewInt(2) }
func bigOf(n int64) *big.Int { return big.NewInt(n) }

// coreOf returns the core type of a type parameter whose type set has a single underlying type
// (e.g. S ~[]E), or nil.
func coreOf(tp *types.TypeParam) types.Type {
	iface, ok := tp.Constraint().Underlying().(*types.Interface)
	if !ok {
		return nil
	}
	var core types.Type
	n := 0
	for i := 0; i < iface.NumEmbeddeds(); i++ {
		switch u := iface.EmbeddedType(i).(type) {
		case *types.Union:
			for j := 0; j < u.Len(); j++ {
				n++
				core = u.Term(j).Type()
			}
		default:
			if _, isIface := u.Underlying().(*types.Interface); !isIface {
				n++
				core = u
			}
		}
	}
	if n == 1 {
		return core
	}
	return nil
}

// norm replaces a type parameter that has a core type by that core type.
func norm(t types.Type) types.Type {
	if tp, ok := t.(*types.TypeParam); ok {
		if c := coreOf(tp); c != nil {
			return c
		}
	}
	return t
}

// under is Underlying() that looks through type parameters with a core type.
func under(t types.Type) types.Type { return norm(t).Underlying() }

// literal type tags: distinct positive integers per dynamic type (so that comparisons with the
// nil interface fold syntactically)
var (
	tagMu   sync.Mutex
	tagNums = map[string]int64{}
)

func tagNumber(name string) int64 {
	tagMu.Lock()
	defer tagMu.Unlock()
	if n, ok := tagNums[name]; ok {
		return n
	}
	n := int64(1000 + len(tagNums))
	tagNums[name] = n
	return n
}

// rebaseIndexVar: if the bound variable `name` occurs in the body (mostly) in the form (+ OFF name)
// with one offset term OFF, substitute name := k - OFF where k is a new bound variable, so that
// (+ OFF name) becomes k. Returns the new body and the new variable's name.
func rebaseIndexVar(body, name string) (string, string, bool) {
	// find occurrences of " name)" that close a "(+ X name)" form
	counts := map[string]int{}
	needle := " " + name + ")"
	for i := 0; i+len(needle) <= len(body); i++ {
		if body[i:i+len(needle)] != needle {
			continue
		}
		// scan backwards over one balanced term X, then expect "(+ "
		j := i // position of the space before name
		k := j - 1
		depth := 0
		for k >= 0 {
			c := body[k]
			if c == ')' {
				depth++
			} else if c == '(' {
				depth--
				if depth == 0 {
					break
				}
				if depth < 0 {
					break
				}
			} else if depth == 0 && (c == ' ') {
				break
			}
			k--
		}
		if k < 0 {
			continue
		}
		var x string
		var start int
		if body[k] == '(' && depth == 0 {
			x = body[k:j]
			start = k
		} else if body[k] == ' ' {
			x = body[k+1 : j]
			start = k + 1
		} else {
			continue
		}
		if start < 3 || body[start-3:start] != "(+ " {
			continue
		}
		if strings.Contains(x, name) {
			continue
		}
		counts[x]++
	}
	best, bestN := "", 0
	for x, n := range counts {
		if n > bestN || (n == bestN && x < best) {
			best, bestN = x, n
		}
	}
	if bestN == 0 || best == "0" {
		return body, "", false
	}
	nn := strings.TrimSuffix(name, "|")
	if strings.HasPrefix(name, "|") {
		nn = nn + "@k|"
	} else {
		nn = nn + "@k"
	}
	out := strings.ReplaceAll(body, "(+ "+best+" "+name+")", nn)
	// remaining occurrences of the variable as a whole token
	repl := "(- " + nn + " " + best + ")"
	var sb strings.Builder
	for i := 0; i < len(out); {
		if strings.HasPrefix(out[i:], name) {
			prevOK := i == 0 || out[i-1] == ' ' || out[i-1] == '('
			end := i + len(name)
			nextOK := end == len(out) || out[end] == ' ' || out[end] == ')'
			if prevOK && nextOK {
				sb.WriteString(repl)
				i = end
				continue
			}
		}
		sb.WriteByte(out[i])
		i++
	}
	return sb.String(), nn, true
}
