package main

import "math/big"

func bigTwo() *big.Int        { return big.NewInt(2) }
func bigOf(n int64) *big.Int { return big.NewInt(n) }
