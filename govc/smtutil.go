package main

import (
	"go/types"
	"math/big"
	"sync"
)

func bigTwo() *big.Int        { return big.NewInt(2) }
func bigOf(n int64) *big.Int { return big.NewInt(n) }

// coreOf returns the core type of a type parameter whose type set has a single underlying type
// (e.g. S ~[]E), or nil.
func coreOf(tp *types.TypeParam) types.Type {
	iface, ok := tp.Constraint().Underlying().(*types.Interface)
	if !ok {
		return nil
	}
	var core types.Type
	n := 0
	for i := 0; i < iface.NumEmbeddeds(); i++ {
		switch u := iface.EmbeddedType(i).(type) {
		case *types.Union:
			for j := 0; j < u.Len(); j++ {
				n++
				core = u.Term(j).Type()
			}
		default:
			if _, isIface := u.Underlying().(*types.Interface); !isIface {
				n++
				core = u
			}
		}
	}
	if n == 1 {
		return core
	}
	return nil
}

// norm replaces a type parameter that has a core type by that core type.
func norm(t types.Type) types.Type {
	if tp, ok := t.(*types.TypeParam); ok {
		if c := coreOf(tp); c != nil {
			return c
		}
	}
	return t
}

// under is Underlying() that looks through type parameters with a core type.
func under(t types.Type) types.Type { return norm(t).Underlying() }

// literal type tags: distinct positive integers per dynamic type (so that comparisons with the
// nil interface fold syntactically)
var (
	tagMu   sync.Mutex
	tagNums = map[string]int64{}
)

func tagNumber(name string) int64 {
	tagMu.Lock()
	defer tagMu.Unlock()
	if n, ok := tagNums[name]; ok {
		return n
	}
	n := int64(1000 + len(tagNums))
	tagNums[name] = n
	return n
}
