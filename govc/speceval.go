package main

import (
	"fmt"
	"go/types"
	"sort"
	"strings"

	"golang.org/x/tools/go/ssa"
)

// VSeq is a specification-level byte/int sequence: element i is Data[Off+i], 0 <= i < Len.
type VSeq struct{ Data, Off, Len Term }

type specVal struct {
	v Value
	t types.Type // nil for ghost values (math int / bool / seq)
}

var mathInt types.Type = types.Typ[types.UntypedInt]

// maxFuel: how often a recursive spec function is unfolded per occurrence
const maxFuel = 2

type SpecEnv struct {
	e       *Engine
	st      *State
	fr      *Frame
	vars    map[string]specVal
	heap    map[string]Term // nil: current heap of st
	oldHeap map[string]Term
	oldVars map[string]specVal
	oldNext Term
	pkg     string
	inOld   bool
	uses    map[string]bool // spec functions used
	fuel    int
	fuelSet bool
	callSite bool // evaluating a callee's contract at a call site
	calleeGhost map[string]Term
}

func (env *SpecEnv) clone() *SpecEnv {
	c := *env
	c.vars = map[string]specVal{}
	for k, v := range env.vars {
		c.vars[k] = v
	}
	return &c
}

type specErr struct{ msg string }

func (s specErr) Error() string { return s.msg }

func sfail(f string, a ...interface{}) { panic(specErr{fmt.Sprintf(f, a...)}) }

func (env *SpecEnv) lookup(name string) (specVal, bool) {
	if v, ok := env.vars[name]; ok {
		return v, true
	}
	if env.inOld {
		// inside old(...), in a closure executed in the context of its creator: a parameter of an
		// enclosing function denotes its value on entry (the cell it was captured through did not
		// exist in the old state)
		for fr := env.fr; fr != nil && fr.fn.Parent() != nil && fr.caller != nil; fr = fr.caller {
			for _, p := range fr.caller.fn.Params {
				if p.Name() == name {
					if v, ok := fr.caller.vals[p]; ok {
						return specVal{v, p.Type()}, true
					}
				}
			}
		}
	}
	if v, ok := env.lookupIn(env.fr, name); ok {
		return v, true
	}
	// closures executed in the context of their creator: names of the enclosing function
	for fr := env.fr; fr != nil && fr.fn.Parent() != nil && fr.caller != nil; fr = fr.caller {
		if v, ok := env.lookupIn(fr.caller, name); ok {
			return v, true
		}
	}
	return specVal{}, false
}

func (env *SpecEnv) lookupIn(fr *Frame, name string) (specVal, bool) {
	if fr == nil {
		return specVal{}, false
	}
	if env.inOld {
		// inside old(...): a parameter name denotes its value on entry
		for _, p := range fr.fn.Params {
			if p.Name() == name {
				if v, ok := fr.vals[p]; ok {
					return specVal{v, p.Type()}, true
				}
			}
		}
	}
	if v, ok := fr.nameOver[name]; ok {
		return specVal{v, mathInt}, true
	}
	if sv, ok := fr.names[name]; ok {
		val, defined := fr.vals[sv]
		if !defined {
			if _, isC := sv.(interface{ IsNil() bool }); isC {
				val = env.e.get(env.st, fr, sv)
				defined = true
			}
		}
		if defined {
			if fr.nameAddr[name] {
				p := val.(VPtr)
				v := env.e.loadPtr(env.st, p, env.heap)
				return specVal{v, pointeeType(p)}, true
			}
			return specVal{val, sv.Type()}, true
		}
	}
	for _, p := range fr.fn.Params {
		if p.Name() == name {
			if v, ok := fr.vals[p]; ok {
				return specVal{v, p.Type()}, true
			}
		}
	}
	for i, fv := range fr.fn.FreeVars {
		if fv.Name() == name {
			if v, ok := fr.vals[fr.fn.FreeVars[i]]; ok {
				// free variables are addresses of captured variables
				if p, isPtr := v.(VPtr); isPtr {
					if _, isPT := fv.Type().(*types.Pointer); isPT {
						val := env.e.loadPtr(env.st, p, env.heap)
						return specVal{val, pointeeType(p)}, true
					}
				}
				return specVal{v, fv.Type()}, true
			}
		}
	}
	return specVal{}, false
}

// evalClause evaluates a boolean clause in the context of a frame (names from the frame).
func (e *Engine) evalClause(st *State, fr *Frame, cl Clause, vars map[string]specVal) Term {
	env := &SpecEnv{e: e, st: st, fr: fr, vars: map[string]specVal{}, oldHeap: fr.oldHeap, oldNext: fr.oldNext, pkg: pkgPathOf(fr.fn)}
	for k, v := range vars {
		env.vars[k] = v
	}
	return env.Bool(cl.E)
}

func (env *SpecEnv) Bool(x Expr) Term {
	v := env.eval(x)
	t, ok := v.v.(Term)
	if !ok || t.Sort != SBool {
		sfail("expected boolean expression, got %T", v.v)
	}
	return t
}

func (env *SpecEnv) Int(x Expr) Term {
	v := env.eval(x)
	t, ok := v.v.(Term)
	if !ok || t.Sort != SInt {
		sfail("expected integer expression, got %T (%v)", v.v, x)
	}
	return t
}

type nilVal struct{}

func (env *SpecEnv) curHeapGet(name, sort string) Term {
	if env.heap == nil {
		return env.e.heapGet(env.st, name, sort)
	}
	if t, ok := env.heap[name]; ok {
		return t
	}
	t := env.e.sym.Const("H0!"+name, sort)
	env.heap[name] = t
	return t
}

func (env *SpecEnv) eval(x Expr) specVal {
	switch n := x.(type) {
	case EInt:
		return specVal{BigLit(n.V), mathInt}
	case EBool:
		return specVal{BoolLit(n.V), types.Typ[types.Bool]}
	case ENil:
		return specVal{nilVal{}, nil}
	case EIdent:
		if v, ok := env.lookup(n.Name); ok {
			return v
		}
		if c, ok := env.constant(n.Name); ok {
			return c
		}
		// a local variable of the function that has no value on this path: arbitrary
		if env.fr != nil {
			for _, b := range env.fr.fn.Blocks {
				for _, in := range b.Instrs {
					if dr, ok := in.(*ssa.DebugRef); ok && dr.Object() != nil && dr.Object().Name() == n.Name {
						if v, isVar := dr.Object().(*types.Var); isVar {
							val := env.e.freshValue(env.st, v.Type(), "undef!"+n.Name)
							return specVal{val, v.Type()}
						}
					}
				}
			}
		}
		sfail("unknown identifier %q", n.Name)
	case EUn:
		switch n.Op {
		case "!":
			return specVal{Not(env.Bool(n.X)), types.Typ[types.Bool]}
		case "-":
			return specVal{Sub(TZero, env.Int(n.X)), mathInt}
		}
		sfail("unsupported unary %s", n.Op)
	case ECond:
		c := env.Bool(n.C)
		a := env.eval(n.A)
		b := env.eval(n.B)
		at, ok1 := a.v.(Term)
		bt, ok2 := b.v.(Term)
		if !ok1 || !ok2 {
			sfail("conditional on composite values")
		}
		return specVal{Ite(c, at, bt), a.t}
	case EQuant:
		sub := env.clone()
		var decls []string
		for _, v := range n.Vars {
			ty := "int"
			if i := strings.Index(v, ":"); i >= 0 {
				v, ty = v[:i], v[i+1:]
			}
			name := quoteSym("q!" + v)
			switch ty {
			case "int":
				sub.vars[v] = specVal{Term{name, SInt}, mathInt}
				decls = append(decls, "("+name+" Int)")
			case "string":
				sub.vars[v] = specVal{VStr{Term{name, SStr}}, types.Typ[types.String]}
				decls = append(decls, "("+name+" Str)")
			default:
				sfail("quantified variable %s: unsupported type %s", v, ty)
			}
		}
		body := sub.Bool(n.Body)
		q := "forall"
		if !n.Forall {
			q = "exists"
		}
		if body.S == "true" || body.S == "false" {
			return specVal{body, types.Typ[types.Bool]}
		}
		// re-base integer index variables: forall i. P(obj[off+i]) becomes forall k. P'(obj[k]) so
		// that the solver's triggers (select obj k) match every read of the object
		bs := body.S
		for di, v := range n.Vars {
			if strings.Contains(v, ":") && !strings.HasSuffix(v, ":int") {
				continue
			}
			if i := strings.Index(v, ":"); i >= 0 {
				v = v[:i]
			}
			name := quoteSym("q!" + v)
			if nb, nn, ok := rebaseIndexVar(bs, name); ok {
				bs = nb
				decls[di] = "(" + nn + " Int)"
			}
		}
		return specVal{Term{fmt.Sprintf("(%s (%s) %s)", q, strings.Join(decls, " "), bs), SBool}, types.Typ[types.Bool]}
	case EBin:
		return env.evalBin(n)
	case ESel:
		return env.evalSel(n)
	case EIndex:
		return env.evalIndex(n)
	case ESlice:
		return env.evalSlice(n)
	case ECall:
		return env.evalCall(n)
	}
	sfail("unsupported expression %T", x)
	return specVal{}
}

func (env *SpecEnv) constant(name string) (specVal, bool) {
	// package-level constants of the function's package
	if env.fr == nil {
		return specVal{}, false
	}
	fn := env.fr.fn
	for fn.Parent() != nil {
		fn = fn.Parent()
	}
	if fn.Pkg == nil {
		return specVal{}, false
	}
	if obj := fn.Pkg.Pkg.Scope().Lookup(name); obj != nil {
		if c, ok := obj.(*types.Const); ok {
			if isInteger(c.Type()) || c.Type() == types.Typ[types.UntypedInt] {
				n, ok := new(bigInt).SetString(c.Val().ExactString(), 10)
				if ok {
					return specVal{BigLit(n), mathInt}, true
				}
			}
		}
		if g, ok := obj.(*types.Var); ok {
			// package-level variable: value of the global cell
			p := VPtr{Ref: env.e.sym.Const("global!"+fn.Pkg.Pkg.Path()+"."+g.Name(), SInt), Idx: TZero, Root: g.Type(), ArrLen: -1}
			return specVal{env.e.loadPtr(env.st, p, env.heap), g.Type()}, true
		}
	}
	return specVal{}, false
}

func (env *SpecEnv) evalBin(n EBin) specVal {
	boolT := types.Typ[types.Bool]
	switch n.Op {
	case "&&":
		return specVal{And(env.Bool(n.L), env.Bool(n.R)), boolT}
	case "||":
		return specVal{Or(env.Bool(n.L), env.Bool(n.R)), boolT}
	case "==>":
		return specVal{Implies(env.Bool(n.L), env.Bool(n.R)), boolT}
	case "<==>":
		return specVal{Eq(env.Bool(n.L), env.Bool(n.R)), boolT}
	case "==", "!=":
		l := env.eval(n.L)
		r := env.eval(n.R)
		eq := env.equal(l, r)
		if n.Op == "!=" {
			eq = Not(eq)
		}
		return specVal{eq, boolT}
	case "<", "<=", ">", ">=":
		l, r := env.Int(n.L), env.Int(n.R)
		return specVal{cmp(n.Op, l, r), boolT}
	case "+":
		return specVal{Add(env.Int(n.L), env.Int(n.R)), mathInt}
	case "-":
		return specVal{Sub(env.Int(n.L), env.Int(n.R)), mathInt}
	case "*":
		return specVal{Mul(env.Int(n.L), env.Int(n.R)), mathInt}
	case "/":
		// specification division: euclidean on non-negative operands (use only there)
		return specVal{EDiv(env.Int(n.L), env.Int(n.R)), mathInt}
	case "%":
		return specVal{EMod(env.Int(n.L), env.Int(n.R)), mathInt}
	case "^":
		l, r := env.Int(n.L), env.Int(n.R)
		return specVal{env.e.bitop(env.st, tokXOR, l, r, types.Typ[types.Uint8]), mathInt}
	case "in":
		// k in m  (map membership)
		m := env.eval(n.R)
		k := env.eval(n.L)
		mt, ok := m.t.Underlying().(*types.Map)
		if !ok {
			sfail("'in' needs a map")
		}
		dom, _, _ := env.e.mapHeaps(mt)
		kt := env.e.keyTerm(k.v, mt.Key())
		d := env.curHeapGet(dom.name, dom.sort)
		return specVal{Select(Select(d, m.v.(Term)), kt), boolT}
	}
	sfail("unsupported binary operator %s", n.Op)
	return specVal{}
}

func (env *SpecEnv) equal(l, r specVal) Term {
	if _, ok := l.v.(nilVal); ok {
		l, r = r, l
	}
	if _, ok := r.v.(nilVal); ok {
		switch x := l.v.(type) {
		case VSlice:
			return Eq(x.Arr, TZero)
		case VPtr:
			return Eq(x.Ref, TZero)
		case VIface:
			return Eq(x.Tag, TZero)
		case Term:
			return Eq(x, TZero)
		case VFunc:
			return Eq(x.ID, TZero)
		case nilVal:
			return TTrue
		}
		sfail("comparison of %T with nil", l.v)
	}
	{
		// an opaque boxed value (ifaceval of an interface whose content is not statically known)
		// against a struct value: undetermined, neither provable nor refutable
		_, lt := l.v.(Term)
		_, rt := r.v.(Term)
		_, lsv := l.v.(VStruct)
		_, rsv := r.v.(VStruct)
		if (lt && rsv) || (lsv && rt) {
			return env.e.sym.Fresh("opaqueeq", SBool)
		}
	}
	if ls, ok := l.v.(VSeq); ok {
		rs := env.toSeq(r)
		return seqEq(ls, rs)
	}
	if rs, ok := r.v.(VSeq); ok {
		ls := env.toSeq(l)
		return seqEq(ls, rs)
	}
	t := l.t
	if t == nil || t == mathInt {
		t = r.t
	}
	if lt, ok := l.v.(Term); ok {
		if rt, ok2 := r.v.(Term); ok2 {
			return Eq(lt, rt)
		}
	}
	return env.e.valueEq(l.v, r.v, t)
}

func seqEq(a, b VSeq) Term {
	q := fmt.Sprintf("(forall ((qi Int)) (=> (and (<= 0 qi) (< qi %s)) (= (select %s (+ %s qi)) (select %s (+ %s qi)))))", a.Len.S, a.Data.S, a.Off.S, b.Data.S, b.Off.S)
	return And(Eq(a.Len, b.Len), Term{q, SBool})
}

func (env *SpecEnv) toSeq(v specVal) VSeq {
	switch x := v.v.(type) {
	case VSeq:
		return x
	case VSlice:
		et := v.t.Underlying().(*types.Slice).Elem()
		if len(flatten(et)) != 1 {
			sfail("seq of composite elements")
		}
		h := env.curHeapGet(heapName(et, ""), arrOf(arrOf(flatten(et)[0].Sort)))
		return VSeq{Select(h, x.Arr), x.Off, x.Len}
	case VStr:
		return VSeq{strData(x), TZero, strLen(x)}
	case VArr:
		return VSeq{x.Comps[0], TZero, IntLit(x.N)}
	case VPtr:
		if x.ArrLen >= 0 {
			h := env.curHeapGet(heapName(x.Root, ""), arrOf(arrOf(flatten(x.Root)[0].Sort)))
			return VSeq{Select(h, x.Ref), x.Idx, IntLit(x.ArrLen)}
		}
	}
	sfail("cannot view %T as a sequence", v.v)
	return VSeq{}
}

func (env *SpecEnv) evalSel(n ESel) specVal {
	x := env.eval(n.X)
	switch v := x.v.(type) {
	case VPtr:
		pt := pointeeType(v)
		st, ok := pt.Underlying().(*types.Struct)
		if !ok {
			sfail("selector %s on pointer to %s", n.Name, pt)
		}
		for i := 0; i < st.NumFields(); i++ {
			if st.Field(i).Name() == n.Name {
				np := v
				np.Path = append(append([]Step{}, v.Path...), Step{Field: n.Name})
				ft := st.Field(i).Type()
				if unitType(ft) {
					return specVal{VStruct{}, ft}
				}
				return specVal{env.e.loadPtr(env.st, np, env.heap), ft}
			}
		}
		// promoted field through embedded struct
		for i := 0; i < st.NumFields(); i++ {
			f := st.Field(i)
			if f.Embedded() {
				if es, ok := f.Type().Underlying().(*types.Struct); ok {
					for j := 0; j < es.NumFields(); j++ {
						if es.Field(j).Name() == n.Name {
							np := v
							np.Path = append(append([]Step{}, v.Path...), Step{Field: f.Name()}, Step{Field: n.Name})
							return specVal{env.e.loadPtr(env.st, np, env.heap), es.Field(j).Type()}
						}
					}
				}
			}
		}
		sfail("no field %s in %s", n.Name, pt)
	case VStruct:
		st := x.t.Underlying().(*types.Struct)
		for i := 0; i < st.NumFields(); i++ {
			if st.Field(i).Name() == n.Name {
				return specVal{v.F[i], st.Field(i).Type()}
			}
		}
		sfail("no field %s in %s", n.Name, x.t)
	}
	sfail("selector .%s on %T", n.Name, x.v)
	return specVal{}
}

// addrOf evaluates an expression to a pointer (for modifies clauses and &-like uses).
func (env *SpecEnv) addrOf(x Expr) (VPtr, types.Type) {
	switch n := x.(type) {
	case ESel:
		b := env.eval(n.X)
		p, ok := b.v.(VPtr)
		if !ok {
			sfail("address of field of non-pointer")
		}
		st := pointeeType(p).Underlying().(*types.Struct)
		for i := 0; i < st.NumFields(); i++ {
			if st.Field(i).Name() == n.Name {
				np := p
				np.Path = append(append([]Step{}, p.Path...), Step{Field: n.Name})
				return np, st.Field(i).Type()
			}
		}
		sfail("no field %s", n.Name)
	case EIndex:
		b := env.eval(n.X)
		if s, ok := b.v.(VSlice); ok {
			et := b.t.Underlying().(*types.Slice).Elem()
			return elemPtr(s, env.Int(n.I), et), et
		}
		if _, isArr := b.t.Underlying().(*types.Array); isArr {
			// element of an array held in a struct field (or of an array object)
			p, t := env.addrOf(n.X)
			at := t.Underlying().(*types.Array)
			i := env.Int(n.I)
			if p.ArrLen >= 0 {
				return VPtr{Ref: p.Ref, Idx: Add(p.Idx, i), Root: p.Root, ArrLen: -1, NonNil: true}, at.Elem()
			}
			np := p
			np.Path = append(append([]Step{}, p.Path...), Step{Index: i})
			return np, at.Elem()
		}
	case EIdent:
		v := env.eval(x)
		if p, ok := v.v.(VPtr); ok {
			return p, pointeeType(p)
		}
	}
	sfail("cannot take address of %v", x)
	return VPtr{}, nil
}

func (env *SpecEnv) evalIndex(n EIndex) specVal {
	x := env.eval(n.X)
	switch v := x.v.(type) {
	case VSeq:
		i := env.Int(n.I)
		return specVal{Select(v.Data, Add(v.Off, i)), mathInt}
	case VSlice:
		i := env.Int(n.I)
		et := x.t.Underlying().(*types.Slice).Elem()
		p := elemPtr(v, i, et)
		val := env.e.loadPtr(env.st, p, env.heap)
		// the element's type invariant (a byte is 0..255) holds in every heap; state it for this
		// cell so that the obligation does not depend on the quantified typing axioms
		if env.st != nil && !env.st.dead {
			for _, f := range rangeFacts(val, et) {
				if !reBoundVar.MatchString(f.S) {
					env.st.Assume(f)
				}
			}
		}
		return specVal{val, et}
	case VArr:
		i := env.Int(n.I)
		var ts []Term
		for _, c := range v.Comps {
			ts = append(ts, Select(c, i))
		}
		val, _ := fromTerms(ts, v.Elem)
		return specVal{val, v.Elem}
	case VStr:
		i := env.Int(n.I)
		return specVal{Select(strData(v), i), mathInt}
	case VPtr:
		if v.ArrLen >= 0 {
			i := env.Int(n.I)
			p := VPtr{Ref: v.Ref, Idx: Add(v.Idx, i), Root: v.Root, ArrLen: -1}
			return specVal{env.e.loadPtr(env.st, p, env.heap), v.Root}
		}
		// a pointer to an array held in a struct field (&a.ID): element through the path
		if at, ok := pointeeType(v).Underlying().(*types.Array); ok {
			np := v
			np.Path = append(append([]Step{}, v.Path...), Step{Index: env.Int(n.I)})
			return specVal{env.e.loadPtr(env.st, np, env.heap), at.Elem()}
		}
	case Term:
		if mt, ok := x.t.Underlying().(*types.Map); ok {
			k := env.eval(n.I)
			kt := env.e.keyTerm(k.v, mt.Key())
			_, _, vals := env.e.mapHeaps(mt)
			var ts []Term
			for _, vh := range vals {
				h := env.curHeapGet(vh.name, vh.sort)
				ts = append(ts, Select(Select(h, v), kt))
			}
			val, _ := fromTerms(ts, mt.Elem())
			return specVal{val, mt.Elem()}
		}
	}
	sfail("index on %T", x.v)
	return specVal{}
}

func (env *SpecEnv) evalSlice(n ESlice) specVal {
	x := env.eval(n.X)
	lo := TZero
	if n.Lo != nil {
		lo = env.Int(n.Lo)
	}
	switch v := x.v.(type) {
	case VSlice:
		hi := v.Len
		if n.Hi != nil {
			hi = env.Int(n.Hi)
		}
		return specVal{VSlice{v.Arr, Add(v.Off, lo), Sub(hi, lo), Sub(v.Cap, lo)}, x.t}
	case VSeq:
		hi := v.Len
		if n.Hi != nil {
			hi = env.Int(n.Hi)
		}
		return specVal{VSeq{v.Data, Add(v.Off, lo), Sub(hi, lo)}, nil}
	}
	sfail("slice expression on %T", x.v)
	return specVal{}
}

func (env *SpecEnv) evalCall(n ECall) specVal {
	boolT := types.Typ[types.Bool]
	switch n.Fn {
	case "old":
		sub := env.clone()
		sub.heap = env.oldHeap
		if sub.heap == nil {
			sfail("old() without an old state")
		}
		sub.inOld = true
		if env.oldVars != nil {
			for k, v := range env.oldVars {
				sub.vars[k] = v
			}
		}
		return sub.eval(n.Args[0])
	case "len":
		x := env.eval(n.Args[0])
		switch v := x.v.(type) {
		case VSlice:
			return specVal{v.Len, mathInt}
		case VSeq:
			return specVal{v.Len, mathInt}
		case VStr:
			return specVal{strLen(v), mathInt}
		case VArr:
			return specVal{IntLit(v.N), mathInt}
		case VPtr:
			if v.ArrLen >= 0 {
				return specVal{IntLit(v.ArrLen), mathInt}
			}
		case Term:
			if mt, ok := x.t.Underlying().(*types.Map); ok {
				_, card, _ := env.e.mapHeaps(mt)
				h := env.curHeapGet(card.name, card.sort)
				return specVal{Select(h, v), mathInt}
			}
		}
		sfail("len of %T", x.v)
	case "cap":
		x := env.eval(n.Args[0])
		if v, ok := x.v.(VSlice); ok {
			return specVal{v.Cap, mathInt}
		}
		sfail("cap of %T", x.v)
	case "seq":
		return specVal{env.toSeq(env.eval(n.Args[0])), nil}
	case "string":
		// string(b): the string with the bytes of b (same function symbol as the code's conversion)
		x := env.eval(n.Args[0])
		if s, ok := x.v.(VStr); ok {
			return specVal{s, types.Typ[types.String]}
		}
		sq := env.toSeq(x)
		return specVal{env.e.strOf(sq.Data, sq.Off, sq.Len), types.Typ[types.String]}
	case "lens":
		// lens(v): the sequence of the lengths of the elements of a slice of slices
		x := env.eval(n.Args[0])
		s, ok := x.v.(VSlice)
		if !ok {
			sfail("lens of %T", x.v)
		}
		et := under(x.t).(*types.Slice).Elem()
		if _, isSl := under(et).(*types.Slice); !isSl {
			sfail("lens needs a slice of slices")
		}
		h := env.curHeapGet(heapName(et, ".len"), arrOf(SArr))
		return specVal{VSeq{Select(h, s.Arr), s.Off, s.Len}, nil}
	case "fresh":
		x := env.eval(n.Args[0])
		var ref Term
		switch v := x.v.(type) {
		case VSlice:
			ref = v.Arr
		case VPtr:
			ref = v.Ref
		case Term:
			ref = v
		default:
			sfail("fresh of %T", x.v)
		}
		if env.oldNext.S == "" {
			sfail("fresh() without an old state")
		}
		return specVal{And(Ge(ref, env.oldNext), Neq(ref, TZero)), boolT}
	case "samearray":
		a := env.eval(n.Args[0]).v.(VSlice)
		b := env.eval(n.Args[1]).v.(VSlice)
		return specVal{Eq(a.Arr, b.Arr), boolT}
	case "elemAt":
		// elemAt(s, k): element at absolute index k of the array object underlying slice s
		x := env.eval(n.Args[0])
		a := x.v.(VSlice)
		et := x.t.Underlying().(*types.Slice).Elem()
		p := VPtr{Ref: a.Arr, Idx: env.Int(n.Args[1]), Root: et, ArrLen: -1}
		return specVal{env.e.loadPtr(env.st, p, env.heap), et}
	case "arr":
		a := env.eval(n.Args[0]).v.(VSlice)
		return specVal{a.Arr, mathInt}
	case "off":
		a := env.eval(n.Args[0]).v.(VSlice)
		return specVal{a.Off, mathInt}
	case "ref":
		x := env.eval(n.Args[0])
		switch v := x.v.(type) {
		case VPtr:
			return specVal{v.Ref, mathInt}
		case Term:
			return specVal{v, mathInt}
		}
		sfail("ref of %T", x.v)
	case "min", "max":
		if len(n.Args) < 1 {
			sfail("min/max need arguments")
		}
		acc := env.Int(n.Args[0])
		for _, a := range n.Args[1:] {
			b := env.Int(a)
			if n.Fn == "min" {
				acc = Ite(Le(acc, b), acc, b)
			} else {
				acc = Ite(Ge(acc, b), acc, b)
			}
		}
		return specVal{acc, mathInt}
	case "mapvals_nonnil":
		// every value stored in the map (of pointer type) is non-nil
		m := env.eval(n.Args[0])
		mt, ok := under(m.t).(*types.Map)
		if !ok {
			sfail("mapvals_nonnil needs a map")
		}
		dom, _, vals := env.e.mapHeaps(mt)
		ks := env.e.keySort(mt.Key())
		d := Select(env.curHeapGet(dom.name, dom.sort), m.v.(Term))
		v0 := Select(env.curHeapGet(vals[0].name, vals[0].sort), m.v.(Term))
		q := fmt.Sprintf("(forall ((qk %s)) (! (=> (select %s qk) (not (= (select %s qk) 0))) :pattern ((select %s qk))))", ks, d.S, v0.S, v0.S)
		return specVal{Term{q, SBool}, boolT}
	case "seen":
		// seen(k): key k has already been produced by the map iteration of the enclosing loop
		cur, ok := env.st.ghost["iter!current"]
		if !ok {
			sfail("seen() outside a map iteration")
		}
		set := env.st.ghost[cur.S]
		k := env.eval(n.Args[0])
		var kt Term
		switch kv := k.v.(type) {
		case VStr:
			kt = kv.T
		case Term:
			kt = kv
		default:
			sfail("seen(): unsupported key %T", k.v)
		}
		return specVal{Select(set, kt), boolT}
	case "mapvals_inv":
		// every value stored in the map (of pointer type) is non-nil and satisfies its type invariant
		m := env.eval(n.Args[0])
		mt, ok := under(m.t).(*types.Map)
		if !ok {
			sfail("mapvals_inv needs a map")
		}
		dom, _, vals := env.e.mapHeaps(mt)
		ks := env.e.keySort(mt.Key())
		d := Select(env.curHeapGet(dom.name, dom.sort), m.v.(Term))
		qk := Term{"qk", ks}
		var ts []Term
		for _, vh := range vals {
			ts = append(ts, Select(Select(env.curHeapGet(vh.name, vh.sort), m.v.(Term)), qk))
		}
		pv, _ := fromTerms(ts, mt.Elem())
		sub := env.clone()
		sub.vars["$mapval"] = specVal{pv, mt.Elem()}
		inv := sub.evalTypeInv(ECall{Fn: "inv", Args: []Expr{EIdent{"$mapval"}}})
		q := fmt.Sprintf("(forall ((qk %s)) (! (=> (select %s qk) (and (not (= %s 0)) %s)) :pattern ((select %s qk))))", ks, d.S, ts[0].S, inv.v.(Term).S, d.S)
		return specVal{Term{q, SBool}, boolT}
	case "ifaceval":
		// ifaceval(i): the value boxed in interface i (for single-word boxed values)
		x := env.eval(n.Args[0])
		if t, isTerm := x.v.(Term); isTerm {
			// a type-parameter typed value used as an interface is passed through unboxed
			return specVal{t, mathInt}
		}
		iv, ok := x.v.(VIface)
		if !ok {
			sfail("ifaceval of %T", x.v)
		}
		if iv.Dyn != nil && iv.DynT != nil {
			if _, isStruct := iv.Dyn.(VStruct); isStruct {
				// the boxed value is statically known (a conversion at this site): the value itself
				return specVal{iv.Dyn, iv.DynT}
			}
		}
		return specVal{iv.Val, mathInt}
	case "isnil":
		return specVal{env.equal(env.eval(n.Args[0]), specVal{nilVal{}, nil}), boolT}
	case "closed":
		ch := env.eval(n.Args[0])
		return specVal{env.e.chanClosed(env.st, ch.v.(Term), env.heap), boolT}
	case "done":
		// done(ctx): the context's Done channel is closed
		ctx := env.eval(n.Args[0])
		return specVal{env.e.chanClosed(env.st, env.e.ctxDone(ctx.v), env.heap), boolT}
	case "ghost":
		// ghost(name) : Int-sorted ghost variable of the path
		id := n.Args[0].(EIdent).Name
		if env.callSite {
			// a callee's ghost variable is not the caller's (even under the same name): all the caller
			// learns about it is what the callee's postconditions say
			if env.calleeGhost == nil {
				env.calleeGhost = map[string]Term{}
			}
			t, ok := env.calleeGhost[id]
			if !ok {
				t = env.e.sym.Fresh("ghost!"+id, SBool)
				env.calleeGhost[id] = t
			}
			return specVal{t, boolT}
		}
		if t, ok := env.st.ghost["g!"+id]; ok {
			if t.Sort == SBool {
				return specVal{t, boolT}
			}
			return specVal{t, mathInt}
		}
		if t, ok := env.st.ghost[id]; ok {
			return specVal{t, mathInt}
		}
		if env.callSite {
			// a callee's ghost variable is not visible to its callers: nothing is known about it
			return specVal{env.e.sym.Fresh("ghost!"+id, SBool), boolT}
		}
		sfail("unknown ghost %s", id)
	case "sshauthkey":
		// sshauthkey(): the key the modelled ssh handshake of this path authenticated (ghost)
		tag, ok1 := env.st.ghost["ssh!auth!tag"]
		val, ok2 := env.st.ghost["ssh!auth!val"]
		if !ok1 || !ok2 {
			tag, val = env.e.sym.Fresh("sshauth!none!tag", SInt), env.e.sym.Fresh("sshauth!none!val", SInt)
		}
		return specVal{VIface{Tag: tag, Val: val}, nil}
	case "recvfrom":
		// recvfrom(ch): a select of this path completed through a receive case on channel ch
		if env.callSite {
			return specVal{env.e.sym.Fresh("recvfrom!callee", SBool), boolT}
		}
		ch := env.eval(n.Args[0]).v.(Term)
		var alts []Term
		for k, v := range env.st.ghost {
			if strings.HasPrefix(k, "recvch!") {
				alts = append(alts, And(v, Eq(Term{strings.TrimPrefix(k, "recvch!"), SInt}, ch)))
			}
		}
		sort.Slice(alts, func(i, j int) bool { return alts[i].S < alts[j].S })
		return specVal{Or(alts...), boolT}
	case "sent":
		// sent(): a select of this path completed through one of its send cases
		if env.callSite {
			// the callee's selects are not the caller's: nothing is known
			return specVal{env.e.sym.Fresh("sent!callee", SBool), boolT}
		}
		var alts []Term
		for k, v := range env.st.ghost {
			if strings.HasPrefix(k, "sent!") {
				alts = append(alts, v)
			}
		}
		sort.Slice(alts, func(i, j int) bool { return alts[i].S < alts[j].S })
		return specVal{Or(alts...), boolT}
	case "emptyset":
		// emptyset(x): the empty ghost set of values of x's type (x is evaluated for its type only)
		x := env.eval(n.Args[0])
		ks := env.e.keySort(x.t)
		return specVal{Term{"((as const (Array " + ks + " Bool)) false)", "(Array " + ks + " Bool)"}, nil}
	case "add", "has":
		s, ok := env.eval(n.Args[0]).v.(Term)
		if (!ok || !strings.HasPrefix(s.Sort, "(Array ")) && env.callSite && n.Fn == "has" {
			// membership in a callee's ghost set, seen from a call site: nothing is known about it
			return specVal{env.e.sym.Fresh("ghosthas", SBool), boolT}
		}
		if !ok || !strings.HasPrefix(s.Sort, "(Array ") {
			sfail("%s: first argument is not a ghost set", n.Fn)
		}
		k := env.eval(n.Args[1])
		kt := env.e.keyTerm(k.v, k.t)
		if n.Fn == "add" {
			return specVal{Store(s, kt, TTrue), nil}
		}
		return specVal{Select(s, kt), boolT}
	case "subsetdom":
		// subsetdom(s, m): every element of the ghost set s is a key of the map m
		s, ok := env.eval(n.Args[0]).v.(Term)
		if !ok || !strings.HasPrefix(s.Sort, "(Array ") {
			sfail("subsetdom: first argument is not a ghost set")
		}
		m := env.eval(n.Args[1])
		mt, isMap := m.t.Underlying().(*types.Map)
		if !isMap {
			sfail("subsetdom: second argument is not a map")
		}
		dom, _, _ := env.e.mapHeaps(mt)
		ks := env.e.keySort(mt.Key())
		d := Select(env.curHeapGet(dom.name, dom.sort), m.v.(Term))
		return specVal{Term{fmt.Sprintf("(forall ((qk %s)) (=> (select %s qk) (select %s qk)))", ks, s.S, d.S), SBool}, boolT}
	case "iserr":
		// iserr(err, Sentinel)
		x := env.eval(n.Args[0]).v.(VIface)
		y := env.eval(n.Args[1]).v.(VIface)
		return specVal{And(Eq(x.Tag, y.Tag), Eq(x.Val, y.Val)), boolT}
	case "uint8", "uint16", "uint32", "uint64", "int":
		x := env.Int(n.Args[0])
		if n.Fn == "int" {
			return specVal{x, mathInt}
		}
		w := map[string]uint{"uint8": 8, "uint16": 16, "uint32": 32, "uint64": 64}[n.Fn]
		return specVal{EMod(x, BigLit(pow2(w))), mathInt}
	case "pow2":
		return specVal{app(SInt, "pow2", env.Int(n.Args[0])), mathInt}
	case "lz8":
		return specVal{app(SInt, "lz8", env.Int(n.Args[0])), mathInt}
	case "uvarint_len":
		return specVal{app(SInt, "uvarint_len", env.Int(n.Args[0])), mathInt}
	case "uvarint_byte":
		return specVal{app(SInt, "uvarint_byte", env.Int(n.Args[0]), env.Int(n.Args[1])), mathInt}
	case "uvarint_n", "uvarint_val":
		s := env.toSeq(env.eval(n.Args[0]))
		return specVal{app(SInt, n.Fn, s.Data, s.Off, s.Len), mathInt}
	case "xor8":
		l, r := env.Int(n.Args[0]), env.Int(n.Args[1])
		return specVal{env.e.bitop(env.st, tokXOR, l, r, types.Typ[types.Uint8]), mathInt}
	case "inv":
		return env.evalTypeInv(n)
	}
	// spec function
	if sf := env.e.lookupSpec(env.pkg, n.Fn); sf != nil {
		if len(n.Args) != len(sf.Params) {
			sfail("spec function %s: %d arguments, want %d", n.Fn, len(n.Args), len(sf.Params))
		}
		// a spec function with a parameter of type "ref" (a pointer into the heap) is a macro: its
		// body is evaluated in the current state (or the old one, inside old(...)) with the
		// parameters bound to the arguments; it cannot be recursive
		isMacro := false
		for _, sp := range sf.Params {
			if sp.Type == "ref" {
				isMacro = true
			}
		}
		if isMacro {
			if sf.Rec || sf.Body == nil {
				sfail("spec function %s: a heap-dependent (ref) spec function needs a non-recursive body", n.Fn)
			}
			sub := env.clone()
			for i, a := range n.Args {
				sub.vars[sf.Params[i].Name] = env.eval(a)
			}
			return sub.eval(sf.Body)
		}
		var args []Term
		for i, a := range n.Args {
			switch sf.Params[i].Type {
			case "int":
				args = append(args, env.Int(a))
			case "bool":
				args = append(args, env.Bool(a))
			case "[]byte", "seq":
				s := env.toSeq(env.eval(a))
				args = append(args, s.Data, s.Off, s.Len)
			case "iface":
				// an interface (or type-parameter typed) value: dynamic type tag and boxed value
				switch v := env.eval(a).v.(type) {
				case VIface:
					args = append(args, v.Tag, v.Val)
				case Term:
					args = append(args, TZero, v)
				case VPtr:
					args = append(args, v.Ref, v.Idx)
				default:
					sfail("spec function %s: argument %d is not an interface value (%T)", n.Fn, i, v)
				}
			default:
				sfail("spec function %s: unsupported parameter type %s", n.Fn, sf.Params[i].Type)
			}
		}
		env.e.useSpec(sf)
		sort := SInt
		var t types.Type = mathInt
		if sf.Ret == "bool" {
			sort = SBool
			t = boolT
		}
		if sf.Rec && sf.Body != nil {
			// recursive spec functions carry a fuel argument (bounded unfolding, Dafny style)
			fuel := env.e.curFuel()
			if env.fuelSet {
				fuel = env.fuel
			}
			args = append([]Term{IntLit(int64(fuel))}, args...)
		}
		return specVal{app(sort, specSym(sf), args...), t}
	}
	sfail("unknown function %s in specification", n.Fn)
	return specVal{}
}

func specSym(sf *SpecFunc) string { return quoteSym("spec!" + shortPkg(sf.Pkg) + "." + sf.Name) }

func (e *Engine) lookupSpec(pkg, name string) *SpecFunc {
	if sf, ok := e.cs.Specs[pkg+"."+name]; ok {
		return sf
	}
	// global search by unique name
	var found *SpecFunc
	for _, sf := range e.cs.Specs {
		if sf.Name == name {
			if found != nil {
				return nil
			}
			found = sf
		}
	}
	return found
}

func (e *Engine) useSpec(sf *SpecFunc) {
	if e.usedSpecs == nil {
		e.usedSpecs = map[string]*SpecFunc{}
	}
	e.usedSpecs[sf.Pkg+"."+sf.Name] = sf
}

// specPrelude renders the definitions of all spec functions (dependency closed, in a stable order).
func (e *Engine) specPrelude(formula string) string {
	// collect all spec functions: cheap, define them all; the solver ignores unused ones.
	var keys []string
	for k := range e.cs.Specs {
		keys = append(keys, k)
	}
	sort.Strings(keys)
	var decls, defs []string
	for _, k := range keys {
		sf := e.cs.Specs[k]
		isMacro := false
		for _, p := range sf.Params {
			if p.Type == "ref" {
				isMacro = true
			}
		}
		if isMacro {
			continue // heap-dependent: expanded where it is used
		}
		var ps []string
		env := &SpecEnv{e: e, st: &State{heap: map[string]Term{}, ghost: map[string]Term{}}, vars: map[string]specVal{}, pkg: sf.Pkg}
		for _, p := range sf.Params {
			switch p.Type {
			case "int":
				ps = append(ps, fmt.Sprintf("(%s Int)", quoteSym("p!"+p.Name)))
				env.vars[p.Name] = specVal{Term{quoteSym("p!" + p.Name), SInt}, mathInt}
			case "bool":
				ps = append(ps, fmt.Sprintf("(%s Bool)", quoteSym("p!"+p.Name)))
				env.vars[p.Name] = specVal{Term{quoteSym("p!" + p.Name), SBool}, types.Typ[types.Bool]}
			case "[]byte", "seq":
				d, o, l := quoteSym("p!"+p.Name+".d"), quoteSym("p!"+p.Name+".o"), quoteSym("p!"+p.Name+".l")
				ps = append(ps, fmt.Sprintf("(%s (Array Int Int)) (%s Int) (%s Int)", d, o, l))
				env.vars[p.Name] = specVal{VSeq{Term{d, SArr}, Term{o, SInt}, Term{l, SInt}}, nil}
			}
		}
		ret := "Int"
		if sf.Ret == "bool" {
			ret = "Bool"
		}
		if sf.Body == nil {
			var sorts []string
			for _, p := range sf.Params {
				switch p.Type {
				case "int":
					sorts = append(sorts, "Int")
				case "bool":
					sorts = append(sorts, "Bool")
				case "iface":
					sorts = append(sorts, "Int", "Int")
				default:
					sorts = append(sorts, "(Array Int Int)", "Int", "Int")
				}
			}
			decls = append(decls, fmt.Sprintf("(declare-fun %s (%s) %s)", specSym(sf), strings.Join(sorts, " "), ret))
			continue
		}
		evalBody := func() Term {
			if ret == "Bool" {
				return env.Bool(sf.Body)
			}
			return env.Int(sf.Body)
		}
		if sf.Rec {
			// f(fuel, args): f(2,x) = body[f(1,.)], f(1,x) = body[f(0,.)], all fuels agree
			var sorts, names []string
			for _, p := range ps {
				for _, q := range splitTop(p) {
					f := splitTop(q[1 : len(q)-1])
					names = append(names, f[0])
					sorts = append(sorts, f[1])
				}
			}
			sym := specSym(sf)
			decl := fmt.Sprintf("(declare-fun %s (Int %s) %s)", sym, strings.Join(sorts, " "), ret)
			bind := strings.Join(ps, " ")
			argl := strings.Join(names, " ")
			var axs []string
			for fuel := e.curFuel(); fuel >= 1; fuel-- {
				env.fuelSet, env.fuel = true, fuel-1
				body := evalBody()
				axs = append(axs, fmt.Sprintf("(assert (forall (%s) (! (= (%s %d %s) %s) :pattern ((%s %d %s)))))", bind, sym, fuel, argl, body.S, sym, fuel, argl))
				axs = append(axs, fmt.Sprintf("(assert (forall (%s) (! (= (%s %d %s) (%s %d %s)) :pattern ((%s %d %s)))))", bind, sym, fuel, argl, sym, fuel-1, argl, sym, fuel, argl))
			}
			env.fuelSet = false
			// a single "definition" line so that the dependency filter keeps it together
			defs = append(defs, fmt.Sprintf("(declare-fun %s (Int %s) %s)\n%s", sym, strings.Join(sorts, " "), ret, strings.Join(axs, "\n")))
			_ = decl
			continue
		}
		body := evalBody()
		defs = append(defs, fmt.Sprintf("(define-fun %s (%s) %s %s)", specSym(sf), strings.Join(ps, " "), ret, body.S))
	}
	// keep only the definitions the formula uses (transitively): unrelated quantified axioms and
	// recursive definitions make satisfiable queries come back "unknown"
	all := append(append([]string{}, decls...), defs...)
	nameOf := func(d string) string { return splitTop(d[1 : len(d)-1])[1] }
	used := map[string]bool{}
	toks := map[string]bool{}
	tokensOf(formula, toks)
	for changed := true; changed; {
		changed = false
		for _, d := range all {
			n := nameOf(d)
			if !used[n] && toks[n] {
				used[n] = true
				tokensOf(d, toks)
				changed = true
			}
		}
	}
	var kd, kf []string
	for _, d := range decls {
		if used[nameOf(d)] {
			kd = append(kd, d)
		}
	}
	for _, d := range defs {
		if used[nameOf(d)] {
			kf = append(kf, d)
		}
	}
	// non-recursive definitions may depend on each other: order by dependency
	ordered := orderDefs(kf)
	return strings.Join(kd, "\n") + "\n" + strings.Join(ordered, "\n") + "\n"
}

func orderDefs(defs []string) []string {
	name := func(d string) string {
		f := splitTop(d[1 : len(d)-1])
		return f[1]
	}
	names := map[string]int{}
	for i, d := range defs {
		names[name(d)] = i
	}
	var out []string
	done := map[int]bool{}
	var visit func(i int, depth int)
	visit = func(i int, depth int) {
		if done[i] || depth > 50 {
			return
		}
		done[i] = true
		for n, j := range names {
			if j != i && strings.Contains(defs[i], n+" ") {
				visit(j, depth+1)
			}
		}
		out = append(out, defs[i])
	}
	for i := range defs {
		visit(i, 0)
	}
	return out
}

func (env *SpecEnv) evalTypeInv(n ECall) specVal {
	x := env.eval(n.Args[0])
	p, ok := x.v.(VPtr)
	var pt types.Type
	if ok {
		pt = pointeeType(p)
	} else {
		// a struct held in a field (x.f): the invariant of the embedded value, at its address
		if _, isStruct := x.v.(VStruct); !isStruct {
			sfail("inv() needs a pointer or an addressable struct")
		}
		p, pt = env.addrOf(n.Args[0])
		x = specVal{p, types.NewPointer(pt)}
	}
	name, pkgp := "", ""
	if nt, ok := pt.(*types.Named); ok {
		name = nt.Obj().Name()
		if nt.Obj().Pkg() != nil {
			pkgp = nt.Obj().Pkg().Path()
		}
	}
	ti := env.e.cs.TypeInvs[pkgp+"."+name]
	if ti == nil {
		sfail("no type invariant for %s", name)
	}
	sub := env.clone()
	sub.vars["self"] = x
	// fields accessible unqualified
	if st, ok := pt.Underlying().(*types.Struct); ok {
		for i := 0; i < st.NumFields(); i++ {
			f := st.Field(i)
			if unitType(f.Type()) {
				continue
			}
			np := p
			np.Path = append(append([]Step{}, p.Path...), Step{Field: f.Name()})
			func() {
				defer func() { recover() }()
				sub.vars[f.Name()] = specVal{env.e.loadPtr(env.st, np, sub.heap), f.Type()}
			}()
		}
	}
	var cs []Term
	for _, cl := range ti.Invs {
		cs = append(cs, sub.Bool(cl.E))
	}
	return specVal{And(cs...), types.Typ[types.Bool]}
}

func (e *Engine) curFuel() int {
	if e.fuel > 0 {
		return e.fuel
	}
	return maxFuel
}
