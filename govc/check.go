package main

import (
	"encoding/json"
	"flag"
	"fmt"
	"os"
	"path/filepath"
	"sort"
	"strings"
	"sync"
	"time"
)

const verifRoot = "/verif"

// PropConfig: which functions (and bounded stand-ins) decide a property.
type PropConfig struct {
	ID        string   `json:"id"`
	Level     string   `json:"level"`
	Functions []string `json:"functions"` // full keys (pkgpath.funcKey)
	Bounded   []string `json:"bounded"`   // names of bounded stand-ins
	Notes     []string `json:"notes"`
	Assume    []string `json:"assumptions"`
	Lemmas    []string `json:"lemmas"`
}

type Baseline struct {
	// property -> obligation name -> "discharged"
	Claimed map[string]map[string]string `json:"claimed"`
	// property -> function display key -> vacuity status on the unchanged tree
	Vacuity map[string]map[string]string `json:"vacuity"`
	// property -> obligation name -> status: obligations the tool generates but could not discharge
	// on the unchanged tree (never counted as proved, never reported as violations)
	Unclaimed map[string]map[string]string `json:"unclaimed"`
}

type Finding struct {
	Property   string `json:"property"`
	Obligation string `json:"obligation"`
	Status     string `json:"status"` // known | fixed
	What       string `json:"what"`
	Commit     string `json:"commit,omitempty"`
}

type KnownFindings struct {
	Findings []Finding `json:"findings"`
}

func loadJSON(path string, v interface{}) error {
	data, err := os.ReadFile(path)
	if err != nil {
		return err
	}
	return json.Unmarshal(data, v)
}

func loadProps() (map[string]*PropConfig, error) {
	var list []*PropConfig
	if err := loadJSON(filepath.Join(verifRoot, "props.json"), &list); err != nil {
		return nil, err
	}
	out := map[string]*PropConfig{}
	for _, p := range list {
		out[p.ID] = p
	}
	return out, nil
}

type checkRun struct {
	prop      *PropConfig
	tier      string
	timeout   int
	results   []*FuncResult
	lemmaRes  []*Obligation
	bounded   []BoundedResult
	start     time.Time
	loadError string
}

// runFunctions verifies the functions of a property in parallel (one engine copy per function).
func runFunctions(e *Engine, keys []string, opts VerifyOpts) []*FuncResult {
	results := make([]*FuncResult, len(keys))
	var wg sync.WaitGroup
	sem := make(chan struct{}, 8)
	for i, k := range keys {
		fn, ok := e.funcs[k]
		if !ok {
			results[i] = &FuncResult{Key: k, Display: k[strings.LastIndex(k, "/")+1:], OutOfReach: "function not found in /repo (contract no longer binds)"}
			continue
		}
		wg.Add(1)
		go func(i int) {
			defer wg.Done()
			sem <- struct{}{}
			defer func() { <-sem }()
			ec := *e
			defer func() {
				if r := recover(); r != nil {
					results[i] = &FuncResult{Key: keys[i], Display: displayKey(fn), OutOfReach: fmt.Sprintf("internal error: %v", r)}
				}
			}()
			results[i] = ec.VerifyFunction(fn, opts)
		}(i)
	}
	wg.Wait()
	return results
}

func cmdCheck(args []string) int {
	fs := flag.NewFlagSet("check", flag.ExitOnError)
	tier := fs.String("tier", "", "quick|thorough")
	updateBaseline := fs.Bool("update-baseline", false, "rewrite the baseline from this run (maintenance only)")
	var id string
	if len(args) > 0 && !strings.HasPrefix(args[0], "-") {
		id = args[0]
		args = args[1:]
	}
	fs.Parse(args)
	if *tier == "" {
		*tier = os.Getenv("VERIF_TIER")
	}
	if *tier == "" {
		*tier = "quick"
	}
	seed := 0
	fmt.Sscan(os.Getenv("VERIF_SEED"), &seed)
	props, err := loadProps()
	if err != nil {
		fmt.Fprintln(os.Stderr, "props.json:", err)
		return 2
	}
	pc, ok := props[id]
	if !ok {
		fmt.Fprintln(os.Stderr, "unknown property", id)
		return 2
	}
	start := time.Now()
	timeout := 10
	if *tier == "thorough" {
		timeout = 60
	}
	// GOVC_OUT redirects everything a run writes (VCs, replays, evidence) to a scratch directory:
	// used only when trying seeded changes in scratch worktrees, several at a time
	outRoot := verifRoot
	if o := os.Getenv("GOVC_OUT"); o != "" {
		outRoot = o
	}
	workDir := filepath.Join(outRoot, "work", "vc", id)
	os.RemoveAll(workDir)
	replayDir := filepath.Join(outRoot, "replays", id)
	os.MkdirAll(replayDir, 0o755)

	var baseline Baseline
	loadJSON(filepath.Join(verifRoot, "baseline", "obligations.json"), &baseline)
	if baseline.Claimed == nil {
		baseline.Claimed = map[string]map[string]string{}
	}
	if baseline.Vacuity == nil {
		baseline.Vacuity = map[string]map[string]string{}
	}
	var known KnownFindings
	loadJSON(filepath.Join(verifRoot, "known_findings.json"), &known)

	violations := 0
	var violationLines []string
	report := func(obName, reason, detail string, noInput bool) {
		violations++
		path := filepath.Join(replayDir, sanitize(obName)+".json")
		rep := map[string]interface{}{"property": id, "obligation": obName, "reason": reason, "detail": detail, "tier": *tier}
		data, _ := json.MarshalIndent(rep, "", " ")
		os.WriteFile(path, data, 0o644)
		line := fmt.Sprintf("VIOLATION property=%s replay=%s", id, path)
		if noInput {
			line += " no-failing-input-found"
		}
		violationLines = append(violationLines, line)
	}

	e, lerr := LoadEngine()
	var results []*FuncResult
	if lerr != nil {
		fmt.Printf("[%s] cannot load /repo with contracts: %v\n", id, lerr)
		report("load", "the repository or its contracts could not be loaded", lerr.Error(), true)
		if *updateBaseline {
			fmt.Println("baseline not updated: load failed")
			os.Exit(1)
		}
	} else {
		for k, where := range e.unbound {
			fmt.Printf("[%s] note: the contract for %s (%s) binds to no function in /repo\n", id, k, where)
		}
		results = runFunctions(e, pc.Functions, VerifyOpts{TimeoutS: timeout, OutDir: workDir})
	}
	var bounded []BoundedResult
	if lerr == nil {
		bounded = runBounded(pc, *tier, seed)
	}

	claimed := baseline.Claimed[id]
	if claimed == nil {
		claimed = map[string]string{}
	}
	// class (function#kind) fully claimed?
	classTotal := map[string]int{}
	for name := range claimed {
		classTotal[classOf(name)]++
	}
	// a function under contract whose panic-class obligations (index, slice, nil dereference, make,
	// division, type assertion, explicit panic, close, map write) were all claimed on the unchanged
	// tree is panic-free there: a new failing obligation of that class in it is a violation even
	// if its kind did not occur in the function before
	panicKinds := map[string]bool{"index": true, "slice": true, "deref": true, "make": true, "div": true, "assert": true, "panic": true, "close": true, "mapwrite": true, "shift": true}
	topOf := func(name string) string {
		if i := strings.IndexAny(name, "#/"); i >= 0 {
			return name[:i]
		}
		return name
	}
	hasClaim := map[string]bool{}
	hasUnclaimedPanic := map[string]bool{}
	for name := range claimed {
		hasClaim[topOf(name)] = true
	}
	for name := range baseline.Unclaimed[id] {
		if panicKinds[kindOf(name)] {
			hasUnclaimedPanic[topOf(name)] = true
		}
	}
	isKnown := func(name string) *Finding {
		for i := range known.Findings {
			f := &known.Findings[i]
			if f.Property == id && f.Obligation == name && f.Status == "known" {
				return f
			}
		}
		return nil
	}

	nOb, nDis := 0, 0
	confirmedFailures := 0
	backends := map[string]int{}
	solverS := 0.0
	var samples []map[string]interface{}
	var unclaimed []map[string]interface{}
	var knownHit []string
	var funcsEv []map[string]interface{}
	assumedSet := map[string]bool{}
	notesSet := map[string]bool{}
	vac := map[string]string{}
	newBaseline := map[string]string{}
	newUnclaimed := map[string]string{}
	seen := map[string]bool{}
	for _, r := range results {
		fe := map[string]interface{}{"function": r.Display, "paths": r.Paths, "vacuity": r.Vacuity, "obligations": len(r.Obligations)}
		if r.OutOfReach != "" {
			fe["out_of_reach"] = r.OutOfReach
		}
		funcsEv = append(funcsEv, fe)
		for _, a := range r.Assumed {
			assumedSet[a] = true
		}
		for _, n := range r.Notes {
			notesSet[n] = true
		}
		vac[r.Display] = r.Vacuity
		if r.OutOfReach != "" {
			// did the baseline claim anything for this function?
			had := false
			for name := range claimed {
				if strings.HasPrefix(name, r.Display+"#") || strings.HasPrefix(name, r.Display+"/") {
					had = true
				}
			}
			if had {
				report(r.Display+"#reach", "function can no longer be verified: "+r.OutOfReach, "", true)
			} else {
				unclaimed = append(unclaimed, map[string]interface{}{"function": r.Display, "status": "out of reach", "why": r.OutOfReach})
			}
			continue
		}
		if bv, ok := baseline.Vacuity[id][r.Display]; ok && bv != "VACUOUS" && r.Vacuity == "VACUOUS" {
			report(r.Display+"#vacuity", "no return path of the function is reachable any more (requires/invariants contradictory or the body never returns)", "", true)
		}
		for _, ob := range r.Obligations {
			seen[ob.Name] = true
			_, isClaimed := claimed[ob.Name]
			typedFile := strings.TrimSuffix(ob.File, ".smt2") + ".typed.smt2"
			_, typedErr := os.Stat(typedFile)
			hasTyped := ob.File != "" && typedErr == nil
			// a model found by the variant without the heap typing axioms while the typed variant ran
			// out of time is not a refutation yet
			weakRefutation := ob.Status == "refuted" && hasTyped && !strings.HasSuffix(ob.Solver, "+typing")
			if isClaimed && (ob.Status == "undecided" || weakRefutation) && ob.File != "" {
				// retries at 4x and then 12x the timeout (both variants) before a claimed obligation that
				// ran out of time is reported: a loaded machine must not turn into an alarm
				ladder := []int{4, 12}
				if confirmedFailures >= 2 {
					// two claimed obligations already failed after the full ladder: the run reports a
					// violation anyway, the remaining ones get the short retry only
					ladder = []int{4}
				}
				for _, factor := range ladder {
					type vr struct {
						r     SolveResult
						typed bool
					}
					ch := make(chan vr, 2)
					n := 0
					if script, err := os.ReadFile(ob.File); err == nil {
						n++
						go func() { ch <- vr{Solve(string(script), filepath.Dir(ob.File), sanitize(ob.Name)+".retry", factor*timeout), false} }()
					}
					if hasTyped {
						if script, err := os.ReadFile(typedFile); err == nil {
							n++
							go func() {
								ch <- vr{Solve(string(script), filepath.Dir(ob.File), sanitize(ob.Name)+".typed.retry", factor*timeout), true}
							}()
						}
					}
					decided := false
					var plainSat *SolveResult
					for i := 0; i < n; i++ {
						v := <-ch
						switch {
						case v.r.Status == "unsat":
							suffix := "(retry)"
							if v.typed {
								suffix = "+typing(retry)"
							}
							ob.Status, ob.Solver, ob.Seconds = "discharged", v.r.Solver+suffix, v.r.Seconds
							decided = true
						case v.r.Status == "sat" && (v.typed || !hasTyped):
							if !decided {
								ob.Status, ob.Solver, ob.Model = "refuted", v.r.Solver, v.r.Model
								if v.typed {
									ob.Solver += "+typing"
								}
								decided = true
							}
						case v.r.Status == "sat":
							r := v.r
							plainSat = &r
						}
					}
					if decided {
						break
					}
					if plainSat != nil && factor == ladder[len(ladder)-1] {
						ob.Status, ob.Solver, ob.Model = "refuted", plainSat.Solver, plainSat.Model
					}
				}
				if ob.Status != "discharged" {
					confirmedFailures++
				}
			}
			if ob.Status == "discharged" {
				// claim only what discharges well under the timeout (no alarms from solver jitter)
				if ob.Trivial || ob.Seconds <= float64(timeout)*0.3 {
					newBaseline[ob.Name] = "discharged"
				} else {
					newUnclaimed[ob.Name] = fmt.Sprintf("discharged in %.1fs: too close to the timeout to be claimed", ob.Seconds)
				}
			}
			if ob.Solver != "" && ob.Solver != "syntactic" {
				solverS += ob.Seconds
			}
			if isClaimed {
				nOb++
				if ob.Status == "discharged" {
					nDis++
					backends[ob.Solver]++
					if len(samples) < 12 && !ob.Trivial {
						samples = append(samples, map[string]interface{}{"obligation": ob.Name, "vc_bytes": ob.VCBytes, "backend": ob.Solver, "seconds": round3(ob.Seconds)})
					}
					continue
				}
			}
			if ob.Status == "discharged" {
				continue
			}
			// failing obligation
			if f := isKnown(ob.Name); f != nil {
				knownHit = append(knownHit, ob.Name)
				fmt.Printf("KNOWN-FINDING: property=%s %s (%s)\n", id, ob.Name, f.What)
				continue
			}
			newUnclaimed[ob.Name] = ob.Status
			inClaimedClass := classTotal[classOf(ob.Name)] > 0
			if panicKinds[kindOf(ob.Name)] && hasClaim[topOf(ob.Name)] && !hasUnclaimedPanic[topOf(ob.Name)] {
				inClaimedClass = true
			}
			_, knownUnclaimed := baseline.Unclaimed[id][ob.Name]
			if isClaimed || (inClaimedClass && !knownUnclaimed && !*updateBaseline) {
				detail := fmt.Sprintf("status=%s solver=%s vc=%s\nmodel/outputs:\n%s", ob.Status, ob.Solver, ob.File, obOutputs(ob))
				reason := "obligation discharged on the unchanged tree now fails"
				if !isClaimed {
					reason = "new failing obligation in a class (function, kind) whose obligations all discharged on the unchanged tree"
				}
				rp, confirmed := tryReplay(e, r, ob)
				if rp != "" {
					detail += "\nreplay: " + rp
				}
				report(ob.Name, reason, detail, !confirmed)
				continue
			}
			unclaimed = append(unclaimed, map[string]interface{}{"obligation": ob.Name, "status": ob.Status})
		}
	}
	// claimed obligations that disappeared
	var missing []string
	for name := range claimed {
		if !seen[name] && lerr == nil {
			missing = append(missing, name)
		}
	}
	sort.Strings(missing)
	// a claimed call-site assertion (hook) that no longer exists: the call it guards has left the
	// function (moved into a goroutine or another function, or removed), so what the contract
	// demanded of that call is no longer checked anywhere
	outOfReach := map[string]bool{}
	for _, r := range results {
		if r.OutOfReach != "" {
			outOfReach[r.Display] = true
		}
	}
	for _, name := range missing {
		if strings.HasPrefix(kindOf(name), "call(") && !outOfReach[topOf(name)] && !*updateBaseline {
			report(name, "a call-site assertion discharged on the unchanged tree no longer applies: the call it guards is gone from the function", "", true)
		}
	}
	// bounded stand-ins
	var boundedEv []map[string]interface{}
	for _, b := range bounded {
		boundedEv = append(boundedEv, map[string]interface{}{"name": b.Name, "bound": b.Bound, "cases": b.Cases, "failures": len(b.Failures), "label": "bounded (not counted as proved)"})
		if b.Error != "" {
			report("bounded:"+b.Name, "the bounded stand-in could not be run on the current tree", b.Error, true)
		}
		for _, f := range b.Failures {
			if kf := isKnown(b.Name + ":" + f.Class); kf != nil {
				knownHit = append(knownHit, b.Name+":"+f.Class)
				fmt.Printf("KNOWN-FINDING: property=%s %s (%s)\n", id, b.Name+":"+f.Class, kf.What)
				continue
			}
			violations++
			path := filepath.Join(replayDir, sanitize(b.Name+"_"+f.Class)+".json")
			data, _ := json.MarshalIndent(map[string]interface{}{"property": id, "bounded": b.Name, "class": f.Class, "input": f.Input, "observed": f.Observed, "replay_cmd": f.ReplayCmd}, "", " ")
			os.WriteFile(path, data, 0o644)
			violationLines = append(violationLines, fmt.Sprintf("VIOLATION property=%s replay=%s", id, path))
		}
	}

	// lemmas: stand-alone SMT scripts (under /verif/lemmas) that link what the contracts establish
	// to the wording of the property; each must be unsatisfiable. Their bound (bit width) is stated
	// in the file; they are reported separately and not counted among the proved obligations.
	var lemmaEv []map[string]interface{}
	for _, lm := range pc.Lemmas {
		data, err := os.ReadFile(filepath.Join(verifRoot, "lemmas", lm+".smt2"))
		if err != nil {
			report("lemma:"+lm, "lemma file missing", err.Error(), true)
			continue
		}
		r := Solve(string(data), workDir, "lemma_"+sanitize(lm), timeout)
		st := "undecided"
		switch r.Status {
		case "unsat":
			st = "discharged"
		case "sat":
			st = "refuted"
		}
		lemmaEv = append(lemmaEv, map[string]interface{}{"name": lm, "status": st, "backend": r.Solver, "seconds": round3(r.Seconds),
			"label": "bounded lemma (fixed bit width, see the file); not counted as proved"})
		if st != "discharged" {
			report("lemma:"+lm, "a lemma the property's argument rests on does not hold (or could not be decided)", r.Model, true)
		}
	}

	if *updateBaseline {
		baseline.Claimed[id] = newBaseline
		baseline.Vacuity[id] = vac
		if baseline.Unclaimed == nil {
			baseline.Unclaimed = map[string]map[string]string{}
		}
		baseline.Unclaimed[id] = newUnclaimed
		os.MkdirAll(filepath.Join(verifRoot, "baseline"), 0o755)
		data, _ := json.MarshalIndent(baseline, "", " ")
		os.WriteFile(filepath.Join(verifRoot, "baseline", "obligations.json"), data, 0o644)
		fmt.Printf("[%s] baseline updated: %d obligations claimed\n", id, len(newBaseline))
	}

	wall := time.Since(start).Seconds()
	fmt.Printf("[%s] tier=%s functions=%d claimed obligations=%d discharged=%d unclaimed=%d known=%d missing=%d bounded=%d violations=%d solver=%.1fs wall=%.1fs\n",
		id, *tier, len(results), nOb, nDis, len(unclaimed), len(knownHit), len(missing), len(bounded), violations, solverS, wall)
	for _, l := range violationLines {
		fmt.Println(l)
	}

	// evidence
	level := pc.Level
	if level == "" {
		level = "proof"
	}
	assumptions := append([]string{}, pc.Assume...)
	for a := range assumedSet {
		assumptions = append(assumptions, a)
	}
	for n := range notesSet {
		assumptions = append(assumptions, "abstraction: "+n)
	}
	sort.Strings(assumptions)
	cov := map[string]interface{}{
		"obligations":   nOb,
		"discharged":    nDis,
		"checker_cmd":   fmt.Sprintf("bin/govc check %s --tier %s  (VC generator govc over go/ssa of /repo; back ends raced per obligation: z3 4.8.12, z3-new 5.1.0, cvc5 1.0)", id, *tier),
		"trusted_base":  []string{"govc VC generator (this repository, /verif/govc)", "go/ssa (x/tools v0.29.0) translation of the Go source", "SMT solvers z3 4.8.12 / z3 5.1.0 / cvc5 1.0 (an obligation counts as discharged when one answers unsat and none answers sat)", "extern models and assumed contracts listed under assumptions"},
		"functions":     funcsEv,
		"backends":      backends,
		"solver_s":      round3(solverS),
		"samples":       samples,
		"unclaimed":     unclaimed,
		"known_findings": knownHit,
		"missing_claimed_obligations": missing,
		"bounded":       boundedEv,
		"lemmas":        lemmaEv,
		"timeout_s":     timeout,
	}
	if level != "proof" {
		ev, dn := 0, 0
		for _, b := range bounded {
			ev += b.Cases
			dn += b.Distinct
		}
		cov["evaluations"] = ev
		cov["distinct_nontrivial"] = dn
		cov["rule"] = "bounded stand-in: the contract clause is executed on the real functions over the enumerated domain described per stand-in; a case is non-trivial when its input differs from every other case"
		var bs []interface{}
		for _, b := range bounded {
			for _, s := range b.Samples {
				bs = append(bs, s)
			}
		}
		if len(bs) > 0 {
			cov["samples"] = bs
		}
	}
	if len(samples) == 0 && level == "proof" {
		cov["samples"] = []map[string]interface{}{{"note": "no non-trivial claimed obligation in this run"}}
	}
	ev := map[string]interface{}{
		"property_id": id,
		"tier":        *tier,
		"seed":        seed,
		"level":       level,
		"coverage":    cov,
		"assumptions": assumptions,
		"wall_s":      round3(wall),
		"violations":  violations,
	}
	os.MkdirAll(filepath.Join(outRoot, "evidence"), 0o755)
	data, _ := json.MarshalIndent(ev, "", " ")
	os.WriteFile(filepath.Join(outRoot, "evidence", id+".json"), data, 0o644)
	if violations > 0 {
		return 1
	}
	return 0
}

func round3(f float64) float64 { return float64(int(f*1000)) / 1000 }

func classOf(name string) string {
	i := strings.Index(name, "#")
	if i < 0 {
		return name
	}
	return name[:i] + "#" + kindOf(name)
}

func obOutputs(ob *Obligation) string {
	var sb strings.Builder
	for _, k := range sortedKeys(ob.Outputs) {
		sb.WriteString("[" + k + "] " + truncate(ob.Outputs[k], 1500) + "\n")
	}
	return sb.String()
}
