package main

import (
	"flag"
	"fmt"
	"go/types"
	"os"
	"path/filepath"
	"sort"
	"strings"

	"golang.org/x/tools/go/packages"
	"golang.org/x/tools/go/ssa"
	"golang.org/x/tools/go/ssa/ssautil"
)

// repoRoot is the tree under verification. GOVC_REPO overrides it for contract development in a
// scratch worktree; every registered check runs without it, against /repo.
var repoRoot = func() string {
	if r := os.Getenv("GOVC_REPO"); r != "" {
		return r
	}
	return "/repo"
}()
const modulePath = "go.brendoncarroll.net/p2p"

func LoadEngine() (*Engine, error) {
	cfg := &packages.Config{Mode: packages.LoadSyntax, Dir: repoRoot, BuildFlags: []string{"-tags=verif"},
		Env: append(os.Environ(), "GOFLAGS=-mod=mod", "GOPROXY=off", "GOSUMDB=off", "GOTOOLCHAIN=local")}
	pkgs, err := packages.Load(cfg, "./...")
	if err != nil {
		return nil, err
	}
	var errs []string
	for _, p := range pkgs {
		for _, e := range p.Errors {
			errs = append(errs, e.Error())
		}
	}
	if len(errs) > 0 {
		return nil, fmt.Errorf("package errors:\n%s", strings.Join(errs, "\n"))
	}
	prog, spkgs := ssautil.AllPackages(pkgs, ssa.GlobalDebug|ssa.InstantiateGenerics)
	prog.Build()
	e := &Engine{prog: prog, pkgs: pkgs, spkgs: map[string]*ssa.Package{}, sym: NewSymTab(), cs: NewContractSet(), funcs: map[string]*ssa.Function{}, maxPaths: 6000}
	if len(pkgs) > 0 {
		e.fset = pkgs[0].Fset
	}
	for _, sp := range spkgs {
		if sp == nil {
			continue
		}
		e.spkgs[sp.Pkg.Path()] = sp
	}
	for fn := range ssautil.AllFunctions(prog) {
		if fn.Pkg == nil && fn.Parent() == nil {
			continue
		}
		p := pkgPathOf(fn)
		if !strings.HasPrefix(p, modulePath) {
			continue
		}
		if fn.Origin() != nil {
			continue // instantiation
		}
		if fn.Synthetic != "" && fn.Parent() == nil {
			continue
		}
		k := fullKey(fn)
		if old, dup := e.funcs[k]; dup && old != fn {
			// keep the one with a body
			if len(old.Blocks) > 0 {
				continue
			}
		}
		e.funcs[k] = fn
	}
	// methods of (generic) named types and their closures are not all enumerated by AllFunctions
	var addFn func(fn *ssa.Function)
	addFn = func(fn *ssa.Function) {
		if fn == nil || fn.Origin() != nil {
			return
		}
		k := fullKey(fn)
		if old, dup := e.funcs[k]; !dup || len(old.Blocks) == 0 {
			e.funcs[k] = fn
		}
		for _, af := range fn.AnonFuncs {
			addFn(af)
		}
	}
	for path, sp := range e.spkgs {
		if !strings.HasPrefix(path, modulePath) {
			continue
		}
		for _, m := range sp.Members {
			switch x := m.(type) {
			case *ssa.Function:
				if x.Synthetic == "" {
					addFn(x)
				}
			case *ssa.Type:
				if named, ok := x.Type().(*types.Named); ok {
					for i := 0; i < named.NumMethods(); i++ {
						addFn(prog.FuncValue(named.Method(i)))
					}
				}
			}
		}
	}
	files, err := FindContractFiles(repoRoot)
	if err != nil {
		return nil, err
	}
	sort.Strings(files)
	for _, f := range files {
		rel, _ := filepath.Rel(repoRoot, filepath.Dir(f))
		pkgPath := modulePath
		if rel != "." {
			pkgPath = modulePath + "/" + filepath.ToSlash(rel)
		}
		if err := e.cs.LoadContractFile(f, pkgPath); err != nil {
			return nil, err
		}
	}
	// every contract must bind to a function
	// (a contract that binds to nothing is not a load error: the checks of the properties that list
	// the function report it, through runFunctions; checks of other properties are not affected)
	e.unbound = map[string]string{}
	for k, c := range e.cs.Funcs {
		if _, ok := e.funcs[k]; !ok {
			e.unbound[k] = fmt.Sprintf("%s:%d", c.File, c.Line)
		}
	}
	return e, nil
}

func main() {
	if len(os.Args) < 2 {
		fmt.Fprintln(os.Stderr, "usage: govc <list|verify|check|replay|selftest> ...")
		os.Exit(2)
	}
	switch os.Args[1] {
	case "list":
		e, err := LoadEngine()
		if err != nil && e == nil {
			fmt.Fprintln(os.Stderr, err)
			os.Exit(2)
		}
		keys := sortedKeys(e.funcs)
		for _, k := range keys {
			if len(os.Args) > 2 && !strings.Contains(k, os.Args[2]) {
				continue
			}
			fn := e.funcs[k]
			li := computeLoops(fn)
			fmt.Printf("%s  blocks=%d loops=%d\n", k, len(fn.Blocks), len(li.heads))
		}
	case "ssa":
		e, err := LoadEngine()
		if err != nil && e == nil {
			fmt.Fprintln(os.Stderr, err)
			os.Exit(2)
		}
		for _, k := range sortedKeys(e.funcs) {
			if strings.HasSuffix(k, os.Args[2]) {
				e.funcs[k].WriteTo(os.Stdout)
			}
		}
	case "verify":
		fs := flag.NewFlagSet("verify", flag.ExitOnError)
		timeout := fs.Int("t", 10, "per-query timeout (s)")
		out := fs.String("o", "/verif/work/vc", "VC output dir")
		verbose := fs.Bool("v", false, "verbose")
		doReplay := fs.Bool("replay", false, "replay refuted obligations on the real code")
		fs.Parse(os.Args[2:])
		e, err := LoadEngine()
		if err != nil {
			fmt.Fprintln(os.Stderr, err)
			os.Exit(2)
		}
		for _, pat := range fs.Args() {
			found := false
			for _, k := range sortedKeys(e.funcs) {
				if !strings.HasSuffix(k, pat) {
					continue
				}
				found = true
				ec := *e
				res := ec.VerifyFunction(e.funcs[k], VerifyOpts{TimeoutS: *timeout, OutDir: *out})
				printResult(res, *verbose)
				if *doReplay {
					for _, ob := range res.Obligations {
						if ob.Status == "refuted" {
							p, ok := tryReplay(&ec, res, ob)
							fmt.Printf("   replay %s: confirmed=%v artefact=%s\n", ob.Name, ok, p)
						}
					}
				}
			}
			if !found {
				fmt.Printf("no function matches %q\n", pat)
			}
		}
	case "sweep":
		// zero-annotation safety sweep over all functions whose key contains the pattern
		e, err := LoadEngine()
		if err != nil {
			fmt.Fprintln(os.Stderr, err)
			os.Exit(2)
		}
		var keys []string
		for _, k := range sortedKeys(e.funcs) {
			if len(os.Args) > 2 && !strings.Contains(k, os.Args[2]) {
				continue
			}
			if len(e.funcs[k].Blocks) == 0 {
				continue
			}
			keys = append(keys, k)
		}
		results := runFunctions(e, keys, VerifyOpts{TimeoutS: 5, OutDir: "/verif/work/vc/sweep"})
		nf, nr, nob, nd := 0, 0, 0, 0
		for _, r := range results {
			nf++
			if r.OutOfReach != "" {
				nr++
				fmt.Printf("OUT  %s: %s\n", r.Display, r.OutOfReach)
				continue
			}
			for _, ob := range r.Obligations {
				nob++
				if ob.Status == "discharged" {
					nd++
				} else {
					fmt.Printf("%-9s %s\n", ob.Status, ob.Name)
				}
			}
		}
		fmt.Printf("functions=%d out-of-reach=%d obligations=%d discharged=%d\n", nf, nr, nob, nd)
	case "check":
		os.Exit(cmdCheck(os.Args[2:]))
	case "replay":
		os.Exit(cmdReplay(os.Args[2:]))
	default:
		fmt.Fprintln(os.Stderr, "unknown command", os.Args[1])
		os.Exit(2)
	}
}

func printResult(res *FuncResult, verbose bool) {
	fmt.Printf("== %s  paths=%d gen=%.2fs vacuity=%s\n", res.Display, res.Paths, res.GenSeconds, res.Vacuity)
	if res.OutOfReach != "" {
		fmt.Printf("   OUT OF REACH: %s\n", res.OutOfReach)
		return
	}
	for _, ob := range res.Obligations {
		if ob.Trivial && !verbose {
			continue
		}
		fmt.Printf("   %-10s %-8s %6.2fs %7dB  %s\n", ob.Status, ob.Solver, ob.Seconds, ob.VCBytes, ob.Name)
		if verbose && ob.Status != "discharged" {
			for s, o := range ob.Outputs {
				fmt.Printf("      [%s] %s\n", s, firstLines(o, 3))
			}
		}
	}
	if verbose {
		for _, n := range res.Notes {
			fmt.Println("   note:", n)
		}
		for _, n := range res.Assumed {
			fmt.Println("   assumed:", n)
		}
	}
}

func firstLines(s string, n int) string {
	ls := strings.Split(s, "\n")
	if len(ls) > n {
		ls = ls[:n]
	}
	return strings.Join(ls, " | ")
}

