package main

import (
	"fmt"
	"go/types"
	"os"
	"path/filepath"
	"sort"
	"strings"
	"sync"
	"time"

	"golang.org/x/tools/go/ssa"
)

// Obligation is one named proof obligation of a function.
type Obligation struct {
	Name     string
	Func     string
	Kind     string
	Trivial  bool
	Status   string // discharged | refuted | undecided
	Solver   string
	Seconds  float64
	VCBytes  int
	Model    string
	Outputs  map[string]string
	File     string
	Instances int
}

type FuncResult struct {
	Key         string
	Display     string
	OutOfReach  string
	Obligations []*Obligation
	Notes       []string
	Assumed     []string
	Paths       int
	Vacuity     string // "sat" when requires/invariants are satisfiable and the end is reachable
	GenSeconds  float64
	ssaHash     string
}

const prelude = `(set-option :produce-models true)
(set-logic ALL)
(declare-datatypes ((Str 0)) (((mkstr (slen Int) (sdata (Array Int Int))))))
(define-fun str_empty () Str (mkstr 0 ((as const (Array Int Int)) 0)))
(define-fun tdiv ((a Int) (b Int)) Int (ite (>= a 0) (ite (> b 0) (div a b) (- (div a (- b)))) (ite (> b 0) (- (div (- a) b)) (div (- a) (- b)))))
(define-fun tmod ((a Int) (b Int)) Int (- a (* b (tdiv a b))))
(define-fun pow2 ((n Int)) Int (ite (<= n 0) 1 (ite (= n 1) 2 (ite (= n 2) 4 (ite (= n 3) 8 (ite (= n 4) 16 (ite (= n 5) 32 (ite (= n 6) 64 (ite (= n 7) 128 (ite (= n 8) 256 (ite (= n 9) 512 (ite (= n 10) 1024 (ite (= n 11) 2048 (ite (= n 12) 4096 (ite (= n 13) 8192 (ite (= n 14) 16384 (ite (= n 15) 32768 (ite (= n 16) 65536 (ite (= n 24) 16777216 (ite (= n 31) 2147483648 (ite (= n 32) 4294967296 (ite (= n 63) 9223372036854775808 18446744073709551616))))))))))))))))))))))
(define-fun lz8 ((x Int)) Int (ite (<= x 0) 8 (ite (< x 2) 7 (ite (< x 4) 6 (ite (< x 8) 5 (ite (< x 16) 4 (ite (< x 32) 3 (ite (< x 64) 2 (ite (< x 128) 1 0)))))))))
(define-fun uvarint_len ((x Int)) Int (ite (< x 128) 1 (ite (< x 16384) 2 (ite (< x 2097152) 3 (ite (< x 268435456) 4 (ite (< x 34359738368) 5 (ite (< x 4398046511104) 6 (ite (< x 562949953421312) 7 (ite (< x 72057594037927936) 8 (ite (< x 9223372036854775808) 9 10))))))))))
(define-fun uvarint_byte ((x Int) (i Int)) Int (ite (< i (- (uvarint_len x) 1)) (+ 128 (mod (div x (pow2 (* 7 i))) 128)) (div x (pow2 (* 7 i)))))
`

// pow2 in the prelude only covers the exponents that occur with symbolic shift counts in this
// code base after rewriting; uvarint_byte needs multiples of 7 -- defined separately below.
const prelude2 = `(define-fun pow7 ((i Int)) Int (ite (<= i 0) 1 (ite (= i 1) 128 (ite (= i 2) 16384 (ite (= i 3) 2097152 (ite (= i 4) 268435456 (ite (= i 5) 34359738368 (ite (= i 6) 4398046511104 (ite (= i 7) 562949953421312 (ite (= i 8) 72057594037927936 9223372036854775808))))))))))
`

func buildPrelude() string {
	p := strings.Replace(prelude, "(define-fun uvarint_byte ((x Int) (i Int)) Int (ite (< i (- (uvarint_len x) 1)) (+ 128 (mod (div x (pow2 (* 7 i))) 128)) (div x (pow2 (* 7 i)))))\n", "", 1)
	p += prelude2
	p += "(define-fun uvarint_byte ((x Int) (i Int)) Int (ite (< i (- (uvarint_len x) 1)) (+ 128 (mod (div x (pow7 i)) 128)) (div x (pow7 i))))\n"
	// full pow2 table
	var sb strings.Builder
	sb.WriteString("(define-fun pow2 ((n Int)) Int ")
	for i := 0; i < 64; i++ {
		sb.WriteString(fmt.Sprintf("(ite (<= n %d) %s ", i, pow2(uint(i)).String()))
	}
	sb.WriteString(pow2(64).String())
	sb.WriteString(strings.Repeat(")", 64))
	sb.WriteString(")\n")
	// exact model of encoding/binary.Uvarint on the byte sequence d[o..o+l): value and byte count
	var gen func(i int, acc string, want string) string
	gen = func(i int, acc string, want string) string {
		res := func(v, n string) string {
			if want == "val" {
				return v
			}
			return n
		}
		if i == 10 {
			return fmt.Sprintf("(ite (>= %d l) %s %s)", i, res("0", "0"), res("0", "(- 11)"))
		}
		b := fmt.Sprintf("(mod (select d (+ o %d)) 256)", i)
		p7 := new(bigInt).Exp(bigTwo(), bigOf(int64(7*i)), nil).String()
		small := res(fmt.Sprintf("(+ %s (* %s %s))", acc, b, p7), fmt.Sprintf("%d", i+1))
		if i == 9 {
			small = fmt.Sprintf("(ite (> %s 1) %s %s)", b, res("0", "(- 10)"), small)
		}
		next := gen(i+1, fmt.Sprintf("(+ %s (* (- %s 128) %s))", acc, b, p7), want)
		return fmt.Sprintf("(ite (>= %d l) %s (ite (< %s 128) %s %s))", i, res("0", "0"), b, small, next)
	}
	p += "(define-fun uvarint_val ((d (Array Int Int)) (o Int) (l Int)) Int " + gen(0, "0", "val") + ")\n"
	p += "(define-fun uvarint_n ((d (Array Int Int)) (o Int) (l Int)) Int " + gen(0, "0", "n") + ")\n"
	// replace the short pow2 definition
	lines := strings.Split(p, "\n")
	var out []string
	for _, l := range lines {
		if strings.HasPrefix(l, "(define-fun pow2 ") {
			out = append(out, strings.TrimSuffix(sb.String(), "\n"))
			continue
		}
		out = append(out, l)
	}
	return strings.Join(out, "\n")
}

var thePrelude = buildPrelude()

// Datatype declares a tuple datatype (idempotent).
func (st *SymTab) Datatype(name string, sorts []string) {
	st.mu.Lock()
	defer st.mu.Unlock()
	if st.dts == nil {
		st.dts = map[string]string{}
	}
	if _, ok := st.dts[name]; ok {
		return
	}
	var fs []string
	for i, s := range sorts {
		fs = append(fs, fmt.Sprintf("(f%d!%s %s)", i, name, s))
	}
	st.dts[name] = fmt.Sprintf("(declare-datatypes ((%s 0)) (((mk!%s %s))))", name, name, strings.Join(fs, " "))
	st.dtOrder = append(st.dtOrder, name)
}

// Axiom registers (idempotently) axioms about a declared function; emitted when the function is used.
func (st *SymTab) Axiom(fn, text string) {
	st.mu.Lock()
	defer st.mu.Unlock()
	if st.axioms == nil {
		st.axioms = map[string]string{}
	}
	st.axioms[fn] = text
}

// tokensOf returns the set of symbol tokens of an SMT formula.
func tokensOf(s string, into map[string]bool) {
	i := 0
	for i < len(s) {
		c := s[i]
		switch {
		case c == '|':
			j := i + 1
			for j < len(s) && s[j] != '|' {
				j++
			}
			into[s[i:j+1]] = true
			i = j + 1
		case c == '(' || c == ')' || c == ' ' || c == '\n' || c == '\t':
			i++
		default:
			j := i
			for j < len(s) && s[j] != '(' && s[j] != ')' && s[j] != ' ' && s[j] != '\n' && s[j] != '\t' {
				j++
			}
			into[s[i:j]] = true
			i = j
		}
	}
}

func (e *Engine) script(formula string) string {
	specs := e.specPrelude(formula)
	toks := map[string]bool{}
	tokensOf(formula, toks)
	tokensOf(specs, toks)
	var sb strings.Builder
	sb.WriteString(thePrelude)
	for _, n := range e.sym.dtOrder {
		sb.WriteString(e.sym.dts[n])
		sb.WriteByte('\n')
	}
	for _, n := range e.sym.order {
		if !toks[n] {
			continue
		}
		d := e.sym.decls[n]
		if len(d.Args) == 0 {
			sb.WriteString(fmt.Sprintf("(declare-const %s %s)\n", d.Name, d.Sort))
		} else {
			sb.WriteString(fmt.Sprintf("(declare-fun %s (%s) %s)\n", d.Name, strings.Join(d.Args, " "), d.Sort))
		}
	}
	for _, n := range e.sym.order {
		if ax, ok := e.sym.axioms[n]; ok && toks[n] {
			sb.WriteString(ax)
			sb.WriteByte('\n')
		}
	}
	sb.WriteString(specs)
	sb.WriteString("(assert ")
	sb.WriteString(formula)
	sb.WriteString(")\n(check-sat)\n(get-model)\n")
	return sb.String()
}

var basicRanges = map[string][2]string{
	"uint8": {"0", "255"}, "uint16": {"0", "65535"}, "uint32": {"0", "4294967295"}, "uint64": {"0", "18446744073709551615"},
	"int8": {"(- 128)", "127"}, "int16": {"(- 32768)", "32767"}, "int32": {"(- 2147483648)", "2147483647"},
	"int": {"(- 9223372036854775808)", "9223372036854775807"}, "int64": {"(- 9223372036854775808)", "9223372036854775807"},
	"uint": {"0", "18446744073709551615"},
}

// typingAxioms returns range axioms for the heap constants of basic integer element type that
// the script declares (H0!A!uint8!, Hhavoc!A!uint8!..., i.e. whole-heap constants of element
// arrays): every cell holds a value of the element type.
// basicHeapRange: the value range of the cells of heap component `name` when it is an array of
// a basic integer type ("A!uint8!").
func basicHeapRange(name string) ([2]string, bool) {
	bare := strings.Trim(name, "|")
	i := strings.Index(bare, "A!")
	if i < 0 {
		return [2]string{}, false
	}
	rest := bare[i+2:]
	j := strings.Index(rest, "!")
	if j < 0 {
		return [2]string{}, false
	}
	tn, path := rest[:j], rest[j+1:]
	if k := strings.Index(path, "!"); k >= 0 {
		path = path[:k]
	}
	rg, ok := basicRanges[tn]
	if !ok || path != "" {
		return [2]string{}, false
	}
	return rg, true
}

// typeObj records the typing axiom of a fresh object-level array (contents of one heap object).
func (e *Engine) typeObj(fresh Term, heapName string) {
	rg, ok := basicHeapRange(heapName)
	if !ok || fresh.Sort != SArr {
		return
	}
	e.sym.mu.Lock()
	defer e.sym.mu.Unlock()
	if e.sym.typing == nil {
		e.sym.typing = map[string]string{}
	}
	e.sym.typing[fresh.S] = fmt.Sprintf("(assert (forall ((ti Int)) (! (and (<= %s (select %s ti)) (<= (select %s ti) %s)) :pattern ((select %s ti)))))\n", rg[0], fresh.S, fresh.S, rg[1], fresh.S)
}

func (e *Engine) typingAxioms(script string) string {
	var sb strings.Builder
	toks := map[string]bool{}
	if len(e.sym.typing) > 0 {
		tokensOf(script, toks)
		for _, n := range e.sym.order {
			if ax, ok := e.sym.typing[n]; ok && toks[n] {
				sb.WriteString(ax)
			}
		}
	}
	for _, line := range strings.Split(script, "\n") {
		if !strings.HasPrefix(line, "(declare-const ") {
			continue
		}
		f := splitTop(line[1 : len(line)-1])
		if len(f) != 3 || f[2] != "(Array Int (Array Int Int))" {
			continue
		}
		bare := strings.Trim(f[1], "|")
		i := strings.Index(bare, "A!")
		if i < 0 {
			continue
		}
		rest := bare[i+2:]
		j := strings.Index(rest, "!")
		if j < 0 {
			continue
		}
		tn, path := rest[:j], rest[j+1:]
		if k := strings.Index(path, "!"); k >= 0 {
			path = path[:k]
		}
		rg, ok := basicRanges[tn]
		if !ok || path != "" {
			continue
		}
		sb.WriteString(fmt.Sprintf("(assert (forall ((tr Int) (ti Int)) (! (and (<= %s (select (select %s tr) ti)) (<= (select (select %s tr) ti) %s)) :pattern ((select (select %s tr) ti)))))\n", rg[0], f[1], f[1], rg[1], f[1]))
	}
	return sb.String()
}

// ---------------------------------------------------------------------------------------------
// VC extraction

type vcBuilder struct {
	marked map[*Node]bool
	name   string
}

func collectAsserts(root *Node) map[string][]*Node {
	out := map[string][]*Node{}
	var walk func(n *Node)
	walk = func(n *Node) {
		for n != nil {
			switch n.Kind {
			case NAssert:
				out[n.Name] = append(out[n.Name], n)
			case NBranch:
				for _, k := range n.Kids {
					walk(k)
				}
				return
			}
			n = n.Next
		}
	}
	walk(root)
	return out
}

// formula builds the refutation formula for the assert nodes `targets` (all with the same name):
// satisfiable iff some path reaches one of them with its condition false.
func buildFormula(root *Node, targets []*Node) string {
	marked := map[*Node]bool{}
	tset := map[*Node]bool{}
	for _, t := range targets {
		tset[t] = true
		for n := t; n != nil; n = n.Parent {
			if marked[n] {
				break
			}
			marked[n] = true
		}
	}
	canaryRun := len(targets) > 0 && targets[0].Name == "canary"
	var build func(n *Node) string
	build = func(n *Node) string {
		var conj []string
		for n != nil && marked[n] {
			switch n.Kind {
			case NAssume:
				if n.T.S != "true" {
					conj = append(conj, n.T.S)
				}
			case NAssert:
				if tset[n] {
					rest := "false"
					if n.Next != nil && marked[n.Next] {
						rest = build(n.Next)
					}
					var alt string
					if rest == "false" {
						alt = Not(n.T).S
					} else {
						alt = "(or " + Not(n.T).S + " (and " + n.T.S + " " + rest + "))"
					}
					conj = append(conj, alt)
					return conjoin(conj)
				}
				if canaryRun {
					// the vacuity canary asks whether a return is reachable at all under the
					// preconditions, the path conditions and the assumed invariants: an obligation
					// that fails must not make it look unreachable, so no obligation is assumed here
					break
				}
				if n.T.S != "true" && n.T.S != "false" {
					// (an obligation that is literally false - a blocking call that no "wakes" clause
					// can be met at, for instance - is reported on its own; assuming it would make
					// everything after it vacuously true)
					conj = append(conj, n.T.S)
				}
			case NBranch:
				var alts []string
				for _, k := range n.Kids {
					if marked[k] {
						alts = append(alts, build(k))
					}
				}
				if len(alts) == 0 {
					conj = append(conj, "false")
				} else if len(alts) == 1 {
					conj = append(conj, alts[0])
				} else {
					conj = append(conj, "(or "+strings.Join(alts, " ")+")")
				}
				return conjoin(conj)
			case NEnd:
				conj = append(conj, "false")
				return conjoin(conj)
			}
			n = n.Next
		}
		conj = append(conj, "false")
		return conjoin(conj)
	}
	return build(root)
}

func conjoin(c []string) string {
	if len(c) == 0 {
		return "true"
	}
	if len(c) == 1 {
		return c[0]
	}
	return "(and " + strings.Join(c, "\n ") + ")"
}

// ---------------------------------------------------------------------------------------------
// Verifying one function

type VerifyOpts struct {
	TimeoutS int
	OutDir   string
	Only     func(name string) bool // filter of obligation names to solve (nil = all)
}

func (e *Engine) VerifyFunction(fn *ssa.Function, opts VerifyOpts) (res *FuncResult) {
	t0 := time.Now()
	res = &FuncResult{Key: fullKey(fn), Display: displayKey(fn)}
	e.sym = NewSymTab()
	e.notes = map[string]bool{}
	e.assumed = map[string]bool{}
	e.paths = 0
	e.usedSpecs = nil
	e.curRoot = fn
	e.bits = nil
	e.fuel = 0
	if ct := e.cs.Funcs[fullKey(fn)]; ct != nil && ct.Fuel > 0 {
		e.fuel = ct.Fuel
	}
	root := &Node{Kind: NAssume, T: TTrue}
	var ends []*Node
	func() {
		defer func() {
			if r := recover(); r != nil {
				switch x := r.(type) {
				case unsupportedErr:
					res.OutOfReach = x.msg
				case specErr:
					res.OutOfReach = "contract error: " + x.msg
				default:
					where := ""
					if e.curInstr != nil {
						where = fmt.Sprintf(" at %s in %s (%s)", e.curInstr, e.curInstr.Parent(), e.fset.Position(e.curInstr.Pos()))
					}
					res.OutOfReach = fmt.Sprintf("internal error: %v%s", r, where)
				}
			}
		}()
		st := &State{heap: map[string]Term{}, ghost: map[string]Term{}, node: root}
		st.next = e.sym.Const("next0", SInt)
		st.next0 = st.next
		st.Assume(Gt(st.next, TOne))
		fr := e.newFrame(fn, nil, displayKey(fn))
		ct := fr.contract
		for i, p := range fn.Params {
			v := e.freshTyped(st, p.Type(), "in!"+p.Name())
			fr.vals[p] = v
			fr.names[p.Name()] = p
			if i == 0 && fn.Signature.Recv() != nil {
				if pv, ok := v.(VPtr); ok {
					st.Assume(Neq(pv.Ref, TZero))
				}
			}
		}
		for _, fv := range fn.FreeVars {
			// closure verified on its own: captured variables are arbitrary
			v := e.freshTyped(st, fv.Type(), "fv!"+fv.Name())
			fr.vals[fv] = v
			fr.names[fv.Name()] = fv
			if _, isPtr := fv.Type().(*types.Pointer); isPtr {
				fr.nameAddr[fv.Name()] = true
				if pv, ok := v.(VPtr); ok {
					st.Assume(Neq(pv.Ref, TZero))
				}
			}
		}
		fr.oldHeap = map[string]Term{}
		fr.oldNext = st.next
		if ct != nil {
			for _, cl := range ct.Requires {
				st.Assume(e.evalClause(st, fr, cl, nil))
			}
		}
		// entry snapshot for old(): components touched later resolve to the same H0 constants
		fr.oldHeap = copyHeap(st.heap)
		if ct != nil {
			for _, gs := range ct.GhostVars {
				e.setGhost(st, fr, gs, nil)
			}
		}
		if len(fn.Blocks) == 0 {
			panic(unsupported("function has no body"))
		}
		e.runBlock(st, fr, fn.Blocks[0], nil, func(s *State, results []Value) {
			e.atReturn(s, fr, results)
			ends = append(ends, s.node)
			s.End("return")
		})
	}()
	res.Paths = e.paths + 1
	res.GenSeconds = time.Since(t0).Seconds()
	for n := range e.notes {
		res.Notes = append(res.Notes, n)
	}
	sort.Strings(res.Notes)
	for n := range e.assumed {
		res.Assumed = append(res.Assumed, n)
	}
	sort.Strings(res.Assumed)
	if res.OutOfReach != "" {
		return res
	}
	asserts := collectAsserts(root)
	names := sortedKeys(asserts)
	var wg sync.WaitGroup
	dir := filepath.Join(opts.OutDir, sanitize(res.Display))
	for _, name := range names {
		nodes := asserts[name]
		ob := &Obligation{Name: name, Func: res.Display, Kind: kindOf(name), Instances: len(nodes)}
		res.Obligations = append(res.Obligations, ob)
		allTrivial := true
		for _, n := range nodes {
			if n.T.S != "true" {
				allTrivial = false
			}
		}
		if allTrivial {
			ob.Trivial = true
			ob.Status = "discharged"
			ob.Solver = "syntactic"
			continue
		}
		if opts.Only != nil && !opts.Only(name) {
			ob.Status = "skipped"
			continue
		}
		f := buildFormula(root, nodes)
		if f == "false" {
			ob.Trivial = true
			ob.Status = "discharged"
			ob.Solver = "syntactic"
			continue
		}
		script := e.script(f)
		ob.VCBytes = len(script)
		if len(script) > 4<<20 {
			ob.Status = "undecided"
			ob.Solver = "none (VC larger than the 4 MB cap)"
			continue
		}
		wg.Add(1)
		typed := e.typingAxioms(script)
		go func(ob *Obligation, script string) {
			defer wg.Done()
			var r SolveResult
			if typed == "" {
				r = Solve(script, dir, sanitize(ob.Name), opts.TimeoutS)
			} else {
				// two variants raced: without and with the typing axioms of the heap (every byte cell
				// is in 0..255, ...). Quantified axioms turn satisfiable queries (counterexamples) into
				// "unknown", so the plain variant is kept for finding models; "unsat" from either
				// variant discharges the obligation (the axioms are sound, and fewer assumptions
				// only make the proof stronger).
				i := strings.LastIndex(script, "(assert ")
				script2 := script[:i] + typed + script[i:]
				ch := make(chan SolveResult, 2)
				go func() { ch <- Solve(script, dir, sanitize(ob.Name), opts.TimeoutS) }()
				go func() {
					r2 := Solve(script2, dir, sanitize(ob.Name)+".typed", opts.TimeoutS)
					if r2.Status == "sat" {
						// a model of the typed variant is a model of the plain one
						r2.Status = "sat"
					}
					r2.Solver += "+typing"
					ch <- r2
				}()
				a := <-ch
				if a.Status == "unsat" {
					r = a
				} else {
					b := <-ch
					switch {
					case b.Status == "unsat":
						r = b
					case a.Status == "sat":
						r = a
					case b.Status == "sat":
						r = b
					default:
						r = a
						if b.Seconds > r.Seconds {
							r.Seconds = b.Seconds
						}
					}
					if r.Status == "sat" && !strings.HasSuffix(r.Solver, "+typing") {
						if r.Outputs == nil {
							r.Outputs = map[string]string{}
						}
						r.Outputs["note"] = "model found without the heap typing axioms; only a replay can confirm it"
					}
				}
			}
			ob.Seconds = r.Seconds
			ob.Solver = r.Solver
			ob.Outputs = r.Outputs
			ob.File = filepath.Join(dir, sanitize(ob.Name)+".smt2")
			switch r.Status {
			case "unsat":
				ob.Status = "discharged"
			case "sat":
				ob.Status = "refuted"
				ob.Model = r.Model
			default:
				ob.Status = "undecided"
			}
		}(ob, script)
	}
	// vacuity: the end of the function must be reachable (requires + invariants satisfiable)
	if len(ends) > 0 {
		var canaries []*Node
		for _, end := range ends {
			c := &Node{Kind: NAssert, T: TFalse, Name: "canary", Parent: end}
			canaries = append(canaries, c)
		}
		// temporarily attach canaries
		saved := make([]*Node, len(ends))
		for i, end := range ends {
			saved[i] = end.Next
			end.Next = canaries[i]
		}
		f := buildFormula(root, canaries)
		for i, end := range ends {
			end.Next = saved[i]
		}
		script := e.script(f)
		wg.Add(1)
		go func() {
			defer wg.Done()
			ct := opts.TimeoutS
			if ct > 3 {
				ct = 3
			}
			r := Solve(script, dir, "vacuity-canary", ct)
			// the canary "assert false at every return" must NOT be provable
			switch r.Status {
			case "sat":
				res.Vacuity = "reachable"
			case "unsat":
				res.Vacuity = "VACUOUS"
			default:
				res.Vacuity = "not-refutable(" + "canary undecided, i.e. false is not derivable within the timeout)"
			}
		}()
	} else {
		res.Vacuity = "no-return-path"
	}
	wg.Wait()
	return res
}

func kindOf(name string) string {
	i := strings.Index(name, "#")
	if i < 0 {
		return ""
	}
	k := name[i+1:]
	if j := strings.Index(k, ":"); j >= 0 {
		k = k[:j]
	}
	return k
}

func sanitize(s string) string {
	var sb strings.Builder
	for _, c := range s {
		if c >= 'a' && c <= 'z' || c >= 'A' && c <= 'Z' || c >= '0' && c <= '9' || c == '.' || c == '_' || c == '-' {
			sb.WriteRune(c)
		} else {
			sb.WriteByte('_')
		}
	}
	out := sb.String()
	if len(out) > 150 {
		out = out[:150] + fmt.Sprintf("_%x", hashString(s))
	}
	return out
}

// atReturn asserts the postconditions of the function under verification.
func (e *Engine) atReturn(st *State, fr *Frame, results []Value) {
	ct := fr.contract
	if ct == nil {
		return
	}
	vars := map[string]specVal{}
	names := resultNames(fr.fn)
	for i, r := range results {
		t := fr.fn.Signature.Results().At(i).Type()
		vars[names[i]] = specVal{r, t}
		clash := false
		for _, p := range fr.fn.Params {
			if p.Name() == "ret" {
				clash = true
			}
		}
		if len(results) == 1 && !clash {
			vars["ret"] = specVal{r, t}
		}
	}
	// parameters denote their entry values in postconditions
	for _, p := range fr.fn.Params {
		vars[p.Name()] = specVal{fr.vals[p], p.Type()}
	}
	for _, cl := range ct.Ensures {
		c := e.evalClause(st, fr, cl, vars)
		e.Assert(st, fr, "ensures", cl.Label, c)
	}
	e.frameCheck(st, fr, vars)
}

// frameCheck: every heap component changed by the function may differ from its entry value only
// at the locations named in the modifies clause (objects allocated by the function are free).
func (e *Engine) frameCheck(st *State, fr *Frame, vars map[string]specVal) {
	ct := fr.contract
	if ct == nil || ct.ModAll || ct.NoFrame || ct.Inline || ct.AssumeFrame {
		return
	}
	if len(ct.Ensures) == 0 && len(ct.Modifies) == 0 && !ct.Pure {
		// a contract that only carries preconditions / call-site assertions promises no frame
		return
	}
	// evaluate the modifies locations in the entry state
	type cell struct {
		name string
		ref  Term
		idx  Term
		whole bool
		elem  bool // whole: only element idx of the object
		path []Term
	}
	var cells []cell
	env := &SpecEnv{e: e, st: st, fr: fr, vars: vars, heap: copyHeap(fr.oldHeap), oldHeap: fr.oldHeap, oldNext: fr.oldNext, pkg: pkgPathOf(fr.fn)}
	for _, m := range ct.Modifies {
		switch n := m.(type) {
		case ECall:
			if n.Fn == "all" || n.Fn == "elems" {
				v := env.eval(n.Args[0])
				switch x := v.v.(type) {
				case VSlice:
					et := v.t.Underlying().(*types.Slice).Elem()
					cells = append(cells, cell{name: "A!" + heapTypeName(et) + "!", ref: x.Arr, whole: true})
				case VPtr:
					if x.ArrLen < 0 && len(x.Path) == 0 {
						cells = append(cells, cell{name: "A!" + heapTypeName(x.Root) + "!", ref: x.Ref, idx: x.Idx, whole: true, elem: true})
					} else {
						cells = append(cells, cell{name: "A!" + heapTypeName(x.Root) + "!", ref: x.Ref, whole: true})
					}
				case Term:
					if mt, ok := v.t.Underlying().(*types.Map); ok {
						cells = append(cells, cell{name: "M!" + heapTypeName(mt.Key()) + "!" + heapTypeName(mt.Elem()) + "!", ref: x, whole: true})
					}
				}
				continue
			}
		}
		p, t := env.addrOf(m)
		prefix, idx := pathPrefix(p.Path)
		for _, c := range flatten(t) {
			cells = append(cells, cell{name: heapName(p.Root, prefix+c.Path), ref: p.Ref, idx: p.Idx, path: idx})
		}
	}
	names := sortedKeys(st.heap)
	for _, name := range names {
		cur := st.heap[name]
		old, ok := fr.oldHeap[name]
		if !ok {
			old = e.sym.Const("H0!"+name, cur.Sort)
		}
		if cur.S == old.S {
			continue
		}
		if name == chanClosedHeap {
			continue
		}
		allowed := old
		for _, c := range cells {
			if c.whole {
				if strings.HasPrefix(name, c.name) {
					if c.elem {
						allowed = Store(allowed, c.ref, Store(Select(allowed, c.ref), c.idx, Select(Select(cur, c.ref), c.idx)))
					} else {
						allowed = Store(allowed, c.ref, Select(cur, c.ref))
					}
				}
				continue
			}
			if c.name == name {
				obj := Select(allowed, c.ref)
				if len(c.path) == 0 {
					allowed = Store(allowed, c.ref, Store(obj, c.idx, Select(Select(cur, c.ref), c.idx)))
				} else {
					newCell := storeN(Select(obj, c.idx), c.path, selectN(Select(Select(cur, c.ref), c.idx), c.path))
					allowed = Store(allowed, c.ref, Store(obj, c.idx, newCell))
				}
			}
		}
		q := fmt.Sprintf("(forall ((qr Int)) (=> (and (< 0 qr) (< qr %s)) (= (select %s qr) (select %s qr))))", fr.oldNext.S, cur.S, allowed.S)
		e.Assert(st, fr, "frame", name, Term{q, SBool})
	}
}

// ---------------------------------------------------------------------------------------------

func writeFile(path, content string) {
	os.MkdirAll(filepath.Dir(path), 0o755)
	os.WriteFile(path, []byte(content), 0o644)
}
