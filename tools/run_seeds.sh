#!/bin/bash
# Confirms and tests every seeded change under the given root (default /tmp/seed): writes
# work/seeds/<id>_<k>.confirm.json and work/seeds/<id>_<k>.check.txt
ROOT=${1:-/tmp/seed}
shift
cd /verif
for d in $ROOT/*/out/*; do
  [ -f $d/patch.diff ] || continue
  id=$(basename $(dirname $(dirname $d))); k=$(basename $d)
  tag=${id}_${k}
  if [ -n "$1" ] && ! echo " $* " | grep -q " $id "; then continue; fi
  base=8ef576c
  if [ -d "$ROOT/$id/.git" ] || [ -f "$ROOT/$id/.git" ]; then
    # the scratch worktree the change was made in (for /tmp/seed2: repo HEAD minus the contract files)
    case $ROOT in /tmp/seed2*) base=$(git -C $ROOT/$id rev-parse HEAD);; esac
  fi
  case $ROOT in /tmp/seed_adapted*) base=$(git -C /repo rev-parse HEAD);; esac
  [ -f work/seeds/$tag.confirm.json ] || SEED_BASE=$base tools/confirm_seed.sh $d /verif/work/seeds/$tag.confirm.json
  props=$id
  case $id in
    C01) props="C01 C10 C08";; C08) props="C08 C10 C15 C02";; C09) props="C09 C01 C10";; C10) props="C10 C01 C08";;
    C15) props="C15 C08";; C18) props="C18 C19";; C19) props="C19 C18";; C20) props="C20";;
    C02) props="C02 C03 C06";; C03) props="C03 C02 C06";; C04) props="C04 C05";; C05) props="C05 C04 C07";; C06) props="C06 C03 C02";; C07) props="C07 C05";;
    C11) props="C11 C12 C13 C15";; C12) props="C12 C11 C13";; C13) props="C13 C12 C11";; C17) props="C17";;
  esac
  tools/test_seed.sh $d/patch.diff $props > work/seeds/$tag.check.txt 2>&1
  echo "$tag: $(grep -c VIOLATION work/seeds/$tag.check.txt) violation lines; $(tail -1 work/seeds/$tag.check.txt)"
done
