#!/bin/bash
# Rebuilds the baseline of claimed obligations for the given properties (default: all in props.json).
cd /verif
ids="$@"
[ -z "$ids" ] && ids=$(python3 -c "import json;print(' '.join(p['id'] for p in json.load(open('props.json'))))")
for p in $ids; do bin/govc check $p --update-baseline 2>&1 | tail -1; done
