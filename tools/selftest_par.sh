#!/bin/bash
# tools/selftest.sh in W shards (default 4), each with its own scratch worktree and work directory.
cd /verif
W=${W:-4}
for i in $(seq 0 $((W-1))); do SHARD=$i NSHARD=$W tools/selftest.sh "$@" > work/selftest_$i.log 2>&1 & done
wait
cat work/selftest_*.log | grep -v '^selftest:' | sort
if grep -h '^selftest:' work/selftest_*.log | grep -q 'NO LONGER'; then echo "selftest: SOME NO LONGER CAUGHT"; exit 1; fi
echo "selftest: all still caught ($(cat work/selftest_*.log | grep -c 'caught=yes') changes)"
