#!/bin/bash
# Tries every seeded change under the given roots against the checks, W at a time, each worker in
# its own scratch worktree of /repo HEAD (GOVC_REPO) with its own output directory (GOVC_OUT), so
# that /repo itself stays free. Results: work/seeds/<tag>.check.txt
W=${WORKERS:-3}
cd /verif
mkdir -p work/seeds
export GOFLAGS=-mod=mod GOPROXY=off GOSUMDB=off GOTOOLCHAIN=local
list=$(mktemp)
for root in "$@"; do
  for d in $root/*/out/*; do [ -f $d/patch.diff ] && echo "$d $root"; done
done > $list
worker() {
  n=$1; list=$2; W=$3
  wt=/tmp/wt$n
  git -C /repo worktree remove --force $wt >/dev/null 2>&1; rm -rf $wt
  git -C /repo worktree add -q --detach $wt HEAD || exit 1
  i=0
  while read d root; do
    i=$((i+1)); [ $((i % W)) -eq $((n % W)) ] || continue
    id=$(basename $(dirname $(dirname $d))); k=$(basename $d)
    tag=$(basename $root)_${id}_${k}
    [ -f work/seeds/$tag.check.txt ] && continue
    case $id in
      C01) props="C01 C10 C13";; C08) props="C08 C10 C15 C03";; C09) props="C09 C01";; C10) props="C10 C01";;
      C15) props="C15 C08";; C18) props="C18";; C19) props="C19 C18";; C20) props="C20";;
      C02) props="C02 C05";; C03) props="C03 C02";; C04) props="C04";; C05) props="C05 C04";; C06) props="C06 C02";; C07) props="C07 C05 C06";;
      C11) props="C11 C15 C10";; C12) props="C12 C11";; C13) props="C13 C12";; C17) props="C17 C04";;
      *) props=$id;;
    esac
    out=work/seeds/$tag.check.txt
    : > $out.tmp
    if ! git -C $wt apply $d/patch.diff 2>>$out.tmp && ! git -C $wt apply -3 $d/patch.diff 2>>$out.tmp; then
      echo "PATCH DOES NOT APPLY" >> $out.tmp; git -C $wt reset -q --hard; git -C $wt clean -fdq; mv $out.tmp $out; echo "$tag: does not apply"; continue
    fi
    if ! (cd $wt && go build ./... 2>>/verif/$out.tmp); then
      echo "BUILD FAILS" >> $out.tmp; git -C $wt reset -q --hard; git -C $wt clean -fdq; mv $out.tmp $out; echo "$tag: build fails"; continue
    fi
    for p in $props; do
      o=$(GOVC_REPO=$wt GOVC_OUT=/verif/work/out$n bin/govc check $p 2>&1); rc=$?
      echo "$o" | grep -E "^\[$p\]|VIOLATION|KNOWN-FINDING" | cut -c1-260 >> $out.tmp
      echo "  -> $p exit=$rc" >> $out.tmp
    done
    git -C $wt reset -q --hard; git -C $wt clean -fdq
    mv $out.tmp $out
    echo "$tag: $(grep -c VIOLATION $out) violation lines | $(grep -o 'exit=[0-9]*' $out | tr '\n' ' ')"
  done < $list
  git -C /repo worktree remove --force $wt >/dev/null 2>&1
}
for n in $(seq 1 $W); do worker $n $list $W & done
wait
rm -f $list
