#!/usr/bin/env python3
"""Adds the confirmed changes of one more seeding round to /verif/seeded and rewrites RESULTS.md
from the meta.json files of all kept changes (the scratch directories of earlier rounds are gone).
usage: ingest_round.py <root, e.g. /tmp/seed5> <suffix, e.g. r3>
Reads work/seeds/<root basename>_<id>_<k>.confirm.json (tools/confirm_seed.sh) and .check.txt
(tools/test_all_par.sh)."""
import json, os, glob, shutil, re, sys

OUT = "/verif/seeded"
W = "/verif/work/seeds"

def ingest(root, suffix):
    for d in sorted(glob.glob(root + "/*/out/*")):
        if not os.path.isfile(d + "/patch.diff"):
            continue
        pid = d.split("/")[-3]; k = d.split("/")[-1]
        tag = f"{os.path.basename(root)}_{pid}_{k}"
        cf = f"{W}/{tag}.confirm.json"; ck = f"{W}/{tag}.check.txt"
        if not os.path.exists(cf):
            print("not confirmed yet:", tag); continue
        c = json.load(open(cf))
        ok = (c.get("demo_unchanged_exit") == "0" and c.get("apply_exit") == "0" and c.get("build_exit") == "0"
              and c.get("demo_changed_exit") not in ("0", None) and c.get("existing_tests_exit") == "0")
        if not ok:
            print("NOT kept (confirmation failed):", tag, c); continue
        check = open(ck).read() if os.path.exists(ck) else ""
        viol = re.findall(r"VIOLATION property=(\S+) replay=\S*/([^/\s]+)\.json", check)
        applies = "PATCH DOES NOT APPLY" not in check and "BUILD FAILS" not in check and check != ""
        meta = json.load(open(d + "/meta.json"))
        name = f"{pid}-{k}-{suffix}"
        dst = f"{OUT}/{name}"
        os.makedirs(dst, exist_ok=True)
        for f in os.listdir(d):
            if f.endswith(".diff") or f.endswith("_test.go") or f == "meta.json":
                shutil.copy(f"{d}/{f}", f"{dst}/{f}" + (".txt" if f.endswith("_test.go") else ""))
        m = dict(meta)
        m["origin"] = f"sub-agent (round {suffix}), against /repo HEAD at the time (contract files removed from its worktree)"
        m["confirmation"] = c
        m["applies_to_repo_head"] = applies
        m["caught_by"] = sorted(set(f"{p}:{o}" for p, o in viol))
        json.dump(m, open(f"{dst}/meta.json", "w"), indent=1)
        print("kept", name, "caught by", m["caught_by"] or "-")

def results():
    rows = []
    for d in sorted(glob.glob(OUT + "/*/")):
        mf = d + "meta.json"
        if not os.path.exists(mf):
            continue
        m = json.load(open(mf))
        rows.append(dict(name=os.path.basename(d.rstrip("/")), summary=m.get("summary", ""), caught_by=m.get("caught_by", []),
                         applies=m.get("applies_to_repo_head", True), head=m.get("on_repaired_tree"), later=m.get("later")))
    with open(f"{OUT}/RESULTS.md", "w") as f:
        f.write("# Seeded changes: which check catches which\n\n")
        f.write("Each change was produced by a sub-agent that saw only the property text and a scratch worktree, and was confirmed by\n"
                "`tools/confirm_seed.sh` (demonstration passes unchanged / fails changed, existing tests pass); only confirmed changes are kept.\n"
                "`caught by` lists the `VIOLATION` lines printed by `bin/govc check <property>` with the change applied (property:obligation)\n"
                "at the time the change was ingested; `later` notes what happened to a change afterwards (a contract added, a repair that\n"
                "replaced the code it was written against). Demonstration files are stored with a `.txt` suffix so that the Go tool does\n"
                "not pick them up. `tools/selftest_par.sh` re-applies every caught change to /repo HEAD and demands a violation again.\n\n")
        f.write("| change | caught by | what was changed |\n|---|---|---|\n")
        for r in rows:
            cb = "<br>".join(r["caught_by"]) if r["caught_by"] else ("—" if r["applies"] else "(not run: does not apply)")
            note = f" [{r['head']}]" if r.get("head") else ""
            if r.get("later"):
                note += f" [later: {r['later']}]"
            f.write(f"| {r['name']} | {cb} | {r['summary'][:300].replace('|','/')}{note} |\n")
        caught = [r for r in rows if r["caught_by"]]
        masked = [r for r in rows if not r["caught_by"] and (r.get("head") or "").startswith("masked")]
        missed = [r for r in rows if not r["caught_by"] and r not in masked]
        f.write(f"\n{len(rows)} confirmed changes kept: {len(caught)} caught by at least one check, {len(missed)} missed when ingested, "
                f"{len(masked)} no longer a violation on the repaired tree (their demonstration passes there).\n")
        if missed:
            f.write("\nMissed when ingested: " + ", ".join(r["name"] for r in missed) + " (discussed in DESIGN.md section 10.5).\n")
    print(f"{len(rows)} changes in {OUT}/RESULTS.md")

if __name__ == "__main__":
    if len(sys.argv) >= 3:
        ingest(sys.argv[1], sys.argv[2])
    results()
