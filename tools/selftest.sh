#!/bin/bash
# Must-fail corpus: every seeded change under /verif/seeded that some check caught when it was
# ingested (meta.json: caught_by) is applied to a scratch worktree of /repo HEAD and the checks that
# caught it are run again; the script fails if one of them no longer reports a violation.
# (Run after every engine or contract change; it does not touch /repo itself.)
cd /verif
export GOFLAGS=-mod=mod GOPROXY=off GOSUMDB=off GOTOOLCHAIN=local
# SHARD=i NSHARD=n runs every n-th change only (tools/selftest_par.sh starts n of these).
SHARD=${SHARD:-0}; NSHARD=${NSHARD:-1}
wt=/tmp/selftest_wt$SHARD; out=/verif/work/selftest$SHARD
git -C /repo worktree remove --force $wt >/dev/null 2>&1; rm -rf $wt
git -C /repo worktree add -q --detach $wt HEAD || exit 2
trap 'git -C /repo worktree remove --force $wt >/dev/null 2>&1; rm -rf $wt $out' EXIT
fail=0; n=0; k=-1
for d in /verif/seeded/*/; do
  name=$(basename $d)
  [ -n "$1" ] && ! echo "$name" | grep -q "$1" && continue
  props=$(python3 -c "
import json
m=json.load(open('$d/meta.json'))
print(' '.join(sorted(set(c.split(':')[0] for c in m.get('caught_by',[])))))")
  [ -z "$props" ] && continue
  k=$((k+1)); [ $((k % NSHARD)) -ne $SHARD ] && continue
  if ! git -C $wt apply $d/patch.diff 2>/dev/null && ! git -C $wt apply -3 $d/patch.diff 2>/dev/null; then
    echo "$name: patch no longer applies to /repo HEAD (skipped)"; git -C $wt reset -q --hard; continue
  fi
  n=$((n+1))
  caught=no
  for p in $props; do
    if GOVC_REPO=$wt GOVC_OUT=$out bin/govc check $p 2>&1 | grep -q "^VIOLATION property=$p"; then caught=yes; break; fi
  done
  git -C $wt reset -q --hard; git -C $wt clean -fdq
  echo "$name: caught=$caught (checks tried: $props)"
  [ $caught = no ] && fail=1
done
echo "selftest: $n changes re-tried, $([ $fail = 0 ] && echo all still caught || echo SOME NO LONGER CAUGHT)"
exit $fail
