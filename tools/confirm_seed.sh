#!/bin/bash
# Confirms a seeded change produced by a sub-agent, in a scratch worktree of the pinned commit:
#   - the demonstration passes on the unchanged tree
#   - with the patch applied the tree builds, the demonstration fails, and the existing tests of
#     the touched packages (and their dependents) still pass
# usage: confirm_seed.sh <seed dir, e.g. /tmp/seed/C15/out/1> <result json>
set -u
export GOFLAGS=-mod=mod GOPROXY=off GOSUMDB=off GOTOOLCHAIN=local
SEED=$1
OUT=$2
BASE=${SEED_BASE:-8ef576c}
WT=$(mktemp -d /tmp/confirm.XXXXXX)
rmdir "$WT"
git -C /repo worktree add --detach "$WT" $BASE >/dev/null 2>&1 || { echo "{\"error\":\"worktree\"}" > "$OUT"; exit 1; }
cleanup() { git -C /repo worktree remove --force "$WT" >/dev/null 2>&1; rm -rf "$WT"; }
trap cleanup EXIT
META="$SEED/meta.json"
PKGDIR=$(python3 -c "import json;print(json.load(open('$META')).get('demo_package_dir','').strip('./'))")
RUNCMD=$(python3 -c "import json;print(json.load(open('$META')).get('demo_run_cmd',''))")
DEMO=$(ls "$SEED"/*_test.go 2>/dev/null | head -1)
res() { python3 - "$OUT" "$@" <<'EOF'
import json,sys
out=sys.argv[1]; kv=dict(a.split('=',1) for a in sys.argv[2:])
json.dump(kv,open(out,'w'),indent=1)
EOF
}
if [ -z "$DEMO" ] || [ -z "$PKGDIR" ]; then res error=missing-demo-or-pkgdir; exit 1; fi
cp "$DEMO" "$WT/$PKGDIR/zz_seed_demo_test.go"
cd "$WT"
# 1. demo on the unchanged tree
timeout 300 go test -vet=off -count=1 -run 'Seed' "./$PKGDIR" > /tmp/confirm_$$.a 2>&1; A=$?
# 2. apply
git apply "$SEED/patch.diff" 2>/tmp/confirm_$$.ap; AP=$?
go build ./... > /tmp/confirm_$$.b 2>&1; B=$?
timeout 300 go test -vet=off -count=1 -run 'Seed' "./$PKGDIR" > /tmp/confirm_$$.c 2>&1; C=$?
# 3. existing tests of the touched packages (without the demo)
rm -f "$WT/$PKGDIR/zz_seed_demo_test.go"
PKGS=$(git diff --name-only | xargs -n1 dirname | sort -u | sed 's|^|./|' | tr '\n' ' ')
T=0
for try in 1 2 3; do
  timeout 900 go test -vet=off -count=1 $PKGS > /tmp/confirm_$$.t 2>&1; T=$?
  [ $T -eq 0 ] && break
done
res demo_unchanged_exit=$A apply_exit=$AP build_exit=$B demo_changed_exit=$C existing_tests_exit=$T packages="$PKGS" \
    demo_changed_tail="$(tail -5 /tmp/confirm_$$.c | tr '\n' ' ' | cut -c1-400)" tests_tail="$(tail -3 /tmp/confirm_$$.t | tr '\n' ' ' | cut -c1-300)"
rm -f /tmp/confirm_$$.*
