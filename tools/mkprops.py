#!/usr/bin/env python3
"""Regenerates /verif/props.json: which functions (under contract or swept) decide each property."""
import json

M = "go.brendoncarroll.net/p2p"
def f(pkg, *names):
    return [f"{M}{'/' + pkg if pkg else ''}.{n}" for n in names]

COMMON = ["slice and string lengths are at most 2^40",
          "int/int64 arithmetic treated as mathematical (no overflow); unsigned and narrow arithmetic wraps exactly"]
BINARY = ["encoding/binary.Uvarint / PutUvarint / BigEndian modelled exactly (10-step unrolling, positional arithmetic); the models are part of the trusted base"]

MUX = f("p/p2pmux", "uint16MuxFunc", "uint16DemuxFunc", "uint32MuxFunc", "uint32DemuxFunc", "uint64MuxFunc",
        "uint64DemuxFunc", "varintMuxFunc", "varintDemuxFunc", "stringMuxFunc", "stringDemuxFunc")
KAD_LAWS = f("p/kademlia", "min", "XORBytes", "Distance", "LeadingZeros", "DistanceCmp", "DistanceLt", "DistanceGt")
VEC = f("", "VecSize", "VecBytes")
FRAG_WIRE = f("s/fragswarm", "appendUvarint", "newMessage", "parseMessage")
FRAG_AGG = f("s/fragswarm", "(*aggregator).addPart", "(*aggregator).assemble", "(*swarm).handleTell")
FRAG_SEND = f("s/fragswarm", "(*swarm).Tell", "(*swarm).MTU")

HDR = f("p/mbapp", "ParseMessage", "(Header).getUint32", "(Header).setUint32", "(Header).GetCounter", "(Header).SetCounter",
        "(Header).GetOriginTime", "(Header).SetOriginTime", "(Header).GetTotalSize", "(Header).SetTotalSize", "(Header).SetTimeout",
        "(Header).GetTimeout", "(Header).GetPartIndex", "(Header).SetPartIndex", "(Header).GetPartCount", "(Header).SetPartCount",
        "(Header).GetErrorCode", "(Header).SetErrorCode", "(Header).IsAsk", "(Header).SetIsAsk", "(Header).IsReply", "(Header).SetIsReply",
        "(Header).GroupID")
BITMAP = f("p/mbapp", "newBitMap", "(bitMap).get", "(bitMap).set", "(bitMap).allSet")
COLL = f("p/mbapp", "newCollector", "(*collector).addPart", "(*fragLayer).getCollector", "(*fragLayer).handlePart",
         "(*Swarm).handleMessage", "(*Swarm).handleMessage$1", "(*Swarm).handleTell")
MB_SEND = f("p/mbapp", "(*Swarm).MTU", "(*Swarm).Tell", "(*Swarm).Ask", "(*Swarm).send", "extractErrorCode")

CACHE = f("p/kademlia", "(Entry).IsExpired", "(*bucket).len", "(*bucket).get", "(*bucket).updateMinExpires", "(*bucket).put",
          "(*bucket).delete", "(*bucket).expire", "(*bucket).evict", "(*bucket).update", "newBucket",
          "(*Cache).bucketIndex", "(*Cache).Count", "(*Cache).IsFull", "(*Cache).Get", "(*Cache).Delete", "(*Cache).evict",
          "(*Cache).Expire", "(*Cache).Update")

SESSION = f("p/p2pke", "newMessage", "ParseMessage", "(Message).GetNonce", "(Message).HeaderBytes", "(Message).Body",
            "(*Session).canSend", "(*Session).canReceive", "(*Session).IsReady", "(*Session).checkExpired", "(*Session).writeHandshake",
            "(*Session).Handshake", "(*Session).Send", "(*Session).Deliver", "(*Session).readHandshake", "NewSession", "writeInitHello")
READERS = f("p/p2pke", "verify", "verifyAuthClaim", "readInitHello", "readRespHello", "readInitDone", "readRespDone", "parseInitHello")
CHANNEL = f("p/p2pke", "(*Channel).setCurrent", "(*Channel).setNext", "(*Channel).checkKey", "(*Channel).newInit", "(*Channel).newResp",
            "(*Channel).proposeNewSession", "(*Channel).onReadySession", "(*Channel).expireSessions", "(*Channel).Deliver$1",
            "(*Channel).getOrInit", "(*Channel).onRekey$1", "(*Channel).onHandshake$1", "(*Channel).Send$1", "(*Timer).Reset",
            "helloID", "deliveryOrder", "(sessionEntry).foreignHello", "newTimer$1")
CRYPTO = ["flynn/noise handshake and cipher states by assumed contracts: Encrypt appends len(plaintext)+16 bytes, Decrypt returns the plaintext or an error, neither touches the caller's state; WriteMessage/ReadMessage opaque",
          "signature verification (x509.Registry / Verifier) is an uninterpreted pure call: a true result is taken to mean the peer signed (cryptographic soundness assumed)",
          "wireguard replay.Filter.ValidateCounter accepts a counter at most once and only below the limit (assumed)",
          "frames of Session.Send/Deliver, NewSession, writeInitHello, Channel.newInit/newResp are assumed (a Session method writes only its own Session and the out buffer); listed per run under 'assumed frame'",
          "sync.Mutex Lock/Unlock are no-ops: the obligations are those of each critical section run sequentially; interleavings are not decided (see C14)",
          "zap logging calls have no effect on the verified state"]

TELLHUB = f("s/swarmutil", "(*TellHub).checkClosed", "(*TellHub).CloseWithError", "(*TellHub).Receive", "(*TellHub).Deliver")
ASKHUB = f("s/swarmutil", "(*AskHub).checkClosed", "(*AskHub).CloseWithError", "(*AskHub).Close", "(*AskHub).ServeAsk", "(*AskHub).Deliver")
DISPATCH = f("p/p2pmux", "(*muxCore).handleRecv", "(*muxCore).serveLoop$1$1", "(*muxCore).serveLoop$1")
HUBS = ["channels are abstracted to identity + closed flag; the contents of a channel are constrained only by the element predicates declared in the contracts (asserted at every send, assumed at every receive)",
        "callbacks (fn) are assumed to keep the hub invariant and not to touch the request being served (fnspec ensures/preserves, listed per run)",
        "a blocking select is woken by closing a channel iff it has a receive case on that channel (Go runtime semantics, assumed)",
        "sync.Once.Do runs its function at most once, at the call site; sync.Mutex operations are no-ops (sequential reasoning only)"]

KESWARM = f("s/p2pkeswarm", "(*Swarm).getFullAddr$1$1", "(*Swarm).handleMessage$1$1", "(*Swarm).handleMessage", "(*Swarm).getFullAddr")
QUICGLUE = f("s/quicswarm", "(*Swarm).withSession", "(*Swarm).serve", "(*Swarm).handleAsk", "(*Swarm).handleTells$1")
DHT = f("p/kademlia", "dhtIterate", "DHTPut$1", "DHTGet$2", "DHTJoin", "DHTPut", "DHTGet", "DHTFindNode")
CLOSES = (f("p/mbapp", "(*Swarm).Close") + f("p/p2pmux", "(*muxedSwarm).Close") + f("s/p2pkeswarm", "(*Swarm).Close") + f("s/quicswarm", "(*Swarm).Close")
          + f("s/sshswarm", "(*Swarm).Close") + f("s/vswarm", "(*SecureRealm).Drop", "(*SecureSwarm).Close") + f("s/swarmutil", "(*Queue).Close") + f("s/fragswarm", "(*swarm).recvLoops"))
IDS = f("", "(*PeerID).UnmarshalText") + f("f/x509", "EqualPublicKeys") + f("s/p2pkeswarm", "DefaultFingerprinter", "ParseAddr", "New") + f("s/quicswarm", "DefaultFingerprinter", "ParseAddr")

QUEUE = f("s/swarmutil", "zeroMessage", "copyMessage", "(*Queue).Deliver", "(*Queue).DeliverVec", "(*Queue).Receive")

PROPS = [
    dict(id="C01", functions=VEC + FRAG_WIRE + FRAG_AGG + FRAG_SEND + HDR + COLL + MB_SEND + QUEUE, assumptions=COMMON + BINARY + HUBS),
    dict(id="C02", functions=SESSION + READERS + f("p/p2pke", "(*Channel).Deliver$1", "(*Channel).Send$1"), assumptions=COMMON + CRYPTO),
    dict(id="C03", functions=SESSION + READERS, assumptions=COMMON + CRYPTO),
    dict(id="C04", functions=KESWARM + QUICGLUE + f("p/p2pke", "(*Channel).checkKey", "(*Channel).onReadySession", "(*Channel).newResp") + f("s/sshswarm", "newServer"),
         assumptions=COMMON + CRYPTO + ["golang.org/x/crypto/ssh.NewServerConn is modelled by its documented contract: the PublicKeyCallback runs for two arbitrary offered keys in either order, one of them authenticates, and the returned connection carries the Permissions the callback returned for that one; ssh.FingerprintSHA256 is an injective uninterpreted function",
                                        "the channel table of p2pkeswarm (a map under a mutex) and p2pke.Channel's entry points are used through trusted / frame-assumed contracts",
                                        "fingerprinter and whitelist are arbitrary pure callbacks"]),
    dict(id="C05", functions=CHANNEL + f("p/p2pke", "(*Session).IsReady", "(*Session).Deliver", "NewSession"), assumptions=COMMON + CRYPTO),
    dict(id="C06", functions=SESSION, assumptions=COMMON + CRYPTO),
    dict(id="C07", functions=CHANNEL, assumptions=COMMON + CRYPTO + ["time.Time modelled as an integer instant"]),
    dict(id="C08", functions=MUX + FRAG_WIRE + FRAG_AGG + HDR + BITMAP + COLL + f("p/p2pke", "parseInitHello") + f("p/kademlia", "(*DHTNode).HandleFindNode", "(*DHTNode).ListNodeInfos"), assumptions=COMMON + BINARY),
    dict(id="C09", functions=VEC + FRAG_SEND + f("s/fragswarm", "newMessage", "appendUvarint") + MB_SEND + HDR + f("p/p2pmux", "(*muxedSwarm).MTU") + f("s/vswarm", "(*SecureRealm).tell", "(*SecureRealm).ask"), assumptions=COMMON + BINARY),
    dict(id="C10", functions=FRAG_WIRE + FRAG_AGG + BITMAP + COLL, assumptions=COMMON + BINARY),
    dict(id="C11", functions=ASKHUB + f("p/p2pmux", "(*muxCore).serveLoop$1$1", "(*muxCore).serveLoop$1") + f("s/vswarm", "(*SecureRealm).ask") + f("p/mbapp", "(*ask).complete", "(*Swarm).handleAskReply", "(*Swarm).Ask") + f("s/sshswarm", "(*Swarm).Ask", "(*Conn).loop"),
         assumptions=COMMON + HUBS + ["sshswarm's connection table and SSH transport are behind trusted contracts (getConn, Conn.Send)"]),
    dict(id="C12", functions=TELLHUB + ASKHUB + f("s/swarmutil", "(*Queue).Receive") + f("s/multiswarm", "(*multiSwarm).Close", "NewSecureAsk") + CLOSES, assumptions=COMMON + HUBS + ["while Queue.Close waits for checked-out buffers, other goroutines keep the invariants of other hubs (frame of Queue.Close assumed at its call sites)", "library calls made by the Close methods (context cancel functions, listeners, inner swarms, errgroup) keep the hubs' invariants and do not replace the hubs' channels (fnspec assumptions, listed per call)"]),
    dict(id="C13", functions=TELLHUB + ASKHUB + f("s/swarmutil", "(*Queue).Receive") + f("s/udpswarm", "(*Swarm).Receive"), assumptions=COMMON + HUBS + ["net.UDPConn.ReadFromUDP blocks on the socket only (no cancellation, no deadline set by the caller): model"]),
    dict(id="C15", functions=MUX + DISPATCH, assumptions=COMMON + BINARY + ["the channel table (sync.Map) only holds swarms built by newMuxedSwarm: trusted contract on muxCore.getSwarm"]),
    dict(id="C16", level="exploration", functions=[],
         bounded=["c16:s/udpswarm:udpswarm.go.txt", "c16:s/sshswarm:sshswarm.go.txt", "c16:s/quicswarm:nested.go.txt:quicswarm", "c16:s/p2pkeswarm:nested.go.txt:p2pkeswarm", "c16:s/multiswarm:multiswarm.go.txt"],
         assumptions=["BOUNDED stand-in, not a proof: the round-trip clause is executed on the real marshal / parse functions over the finite domains stated per stand-in (harnesses under /verif/bounded/c16, injected with go test -overlay)",
                      "the parsers go through net/netip, regexp, strconv, base64 and fmt, which cannot be brought under contracts here; memswarm and vswarm addresses are not covered"]),
    dict(id="C17", functions=IDS, assumptions=COMMON + ["encoding/base64 Decode/Encode write only their destination; EncodedLen/DecodedLen are pure (assumed)",
         "x509.MarshalPublicKey (ASN.1) is behind a trusted contract: the marshal/parse round trip is not decided",
         "crypto/subtle.ConstantTimeCompare returns 1 exactly for equal byte strings (model)"]),
    dict(id="C18", functions=CACHE + KAD_LAWS, assumptions=COMMON + ["time.Time modelled as an integer instant (IsZero <=> 0, Before/After = </>)",
         "map model: domain/value/cardinality arrays per map object; a non-empty map has a key; range over a map produces each present key at most once and all of them at exhaustion"]),
    dict(id="C20", functions=DHT + KAD_LAWS, assumptions=COMMON + ["callbacks (Ask, Validate, AddPeer) are arbitrary but do not touch the iteration's local state",
         "slices.SortFunc permutes its slice and has no other effect (model)", "termination is not decided",
         "map keys of array type are compared element-wise (tuple encoding)"]),
    dict(id="C19", functions=KAD_LAWS + f("p/kademlia", "(*Cache).bucketIndex", "bitAt", "(*Cache).ForEach", "(*Cache).ForEachCloser$1"), lemmas=["kademlia_bucket_order_32"],
         assumptions=COMMON + ["bucket.forEach emits a bucket's entries sorted by distance (slices.SortFunc with DistanceLt as a strict weak order: assumed) and writes nothing of the cache (assumed frame)",
                               "the step from bucket visiting order to nearest-first order of entries is the lemma lemmas/kademlia_bucket_order_32.smt2, checked for 32-bit keys on every run (bounded, not counted as proved)"]),
]

def main():
    out = []
    for p in PROPS:
        out.append({"id": p["id"], "level": p.get("level", "proof"), "functions": p["functions"], "lemmas": p.get("lemmas", []),
                    "bounded": p.get("bounded", []), "assumptions": p.get("assumptions", [])})
    json.dump(out, open("/verif/props.json", "w"), indent=1)
    print("props.json:", ", ".join(f"{p['id']}({len(p['functions'])})" for p in PROPS))

if __name__ == "__main__":
    main()
