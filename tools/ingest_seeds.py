#!/usr/bin/env python3
"""Collects the confirmed seeded changes into /verif/seeded/<id>/ and writes seeded/RESULTS.md.
A change is kept only if its confirmation (tools/confirm_seed.sh, in a scratch worktree) shows:
demonstration passes on the unchanged tree, patch applies, tree builds, demonstration fails with
the change, existing tests of the touched packages pass."""
import json, os, glob, shutil, re, sys

ROOTS = ["/tmp/seed_adapted", "/tmp/seed2", "/tmp/seed3", "/tmp/seed"]
OUT = "/verif/seeded"
W = "/verif/work/seeds"

def main():
    rows = []
    seen = set()
    for root in ROOTS:
        for d in sorted(glob.glob(root + "/*/out/*")):
            if not os.path.isfile(d + "/patch.diff"):
                continue
            pid = d.split("/")[-3]; k = d.split("/")[-1]
            tag = f"{os.path.basename(root)}_{pid}_{k}"
            cf = f"{W}/{tag}.confirm.json"; ck = f"{W}/{tag}.check.txt"
            if not os.path.exists(cf):
                continue
            c = json.load(open(cf))
            ok = (c.get("demo_unchanged_exit") == "0" and c.get("apply_exit") == "0" and c.get("build_exit") == "0"
                  and c.get("demo_changed_exit") not in ("0", None) and c.get("existing_tests_exit") == "0")
            name = f"{pid}-{k}" + {"/tmp/seed2": "", "/tmp/seed3": "-r2", "/tmp/seed_adapted": "-adapted", "/tmp/seed": "-base"}[root]
            if root == "/tmp/seed" and (pid, k) in seen:
                continue  # an adapted version exists
            if root == "/tmp/seed_adapted":
                seen.add((pid, k))
            check = open(ck).read() if os.path.exists(ck) else ""
            viol = re.findall(r"VIOLATION property=(\S+) replay=\S*/([^/\s]+)\.json", check)
            applies = "PATCH DOES NOT APPLY" not in check and "BUILD FAILS" not in check and check != ""
            meta = json.load(open(d + "/meta.json"))
            head = None
            hf = f"{W}/{tag}.confirmhead.json"
            if os.path.exists(hf):
                h = json.load(open(hf))
                if h.get("apply_exit") == "0" and h.get("build_exit") == "0":
                    head = "still breaks the repaired tree" if h.get("demo_changed_exit") not in ("0", None) else "masked on the repaired tree (its demonstration passes there)"
            row = dict(name=name, property=pid, summary=meta.get("summary", ""), confirmed=ok, confirm=c,
                       applies_to_repo=applies, caught_by=sorted(set(f"{p}:{o}" for p, o in viol)), head=head)
            rows.append(row)
            if not ok:
                continue
            dst = f"{OUT}/{name}"
            os.makedirs(dst, exist_ok=True)
            for f in os.listdir(d):
                if f.endswith(".diff") or f.endswith("_test.go") or f == "meta.json":
                    shutil.copy(f"{d}/{f}", f"{dst}/{f}" + (".txt" if f.endswith("_test.go") else ""))
            m = dict(meta)
            m["origin"] = {"/tmp/seed": "sub-agent, against the pinned commit 8ef576c", "/tmp/seed2": "sub-agent, against /repo HEAD at the time (contract files removed from its worktree)",
                           "/tmp/seed3": "sub-agent (second round), against /repo HEAD at the time (contract files removed from its worktree)",
                           "/tmp/seed_adapted": "sub-agent's change re-applied by hand to the repaired tree"}[root]
            m["confirmation"] = c
            m["applies_to_repo_head"] = applies
            m["caught_by"] = row["caught_by"]
            if head:
                m["on_repaired_tree"] = head
            json.dump(m, open(f"{dst}/meta.json", "w"), indent=1)
    with open(f"{OUT}/RESULTS.md", "w") as f:
        f.write("# Seeded changes: which check catches which\n\n")
        f.write("Each change was produced by a sub-agent that saw only the property text and a scratch worktree, and was confirmed by\n"
                "`tools/confirm_seed.sh` (demonstration passes unchanged / fails changed, existing tests pass). `caught by` lists the\n"
                "`VIOLATION` lines printed by `bin/govc check <property>` with the change applied to /repo (property:obligation).\n"
                "Demonstration files are stored with a `.txt` suffix so that the Go tool does not pick them up.\n\n")
        f.write("| change | confirmed | applies to /repo HEAD | caught by | what was changed |\n|---|---|---|---|---|\n")
        for r in rows:
            cb = "<br>".join(r["caught_by"]) if r["caught_by"] else ("—" if r["applies_to_repo"] else "(not run: does not apply)")
            note = f" [{r['head']}]" if r.get('head') else ""
            f.write(f"| {r['name']} | {'yes' if r['confirmed'] else 'NO'} | {'yes' if r['applies_to_repo'] else 'no'} | {cb} | {r['summary'][:300].replace('|','/')}{note} |\n")
        kept = [r for r in rows if r["confirmed"]]
        caught = [r for r in kept if r["caught_by"]]
        masked = [r for r in kept if not r["caught_by"] and (r.get("head") or "").startswith("masked")]
        noapply = [r for r in kept if not r["caught_by"] and not r["applies_to_repo"]]
        missed = [r for r in kept if not r["caught_by"] and r not in masked and r not in noapply]
        f.write(f"\n{len(kept)} confirmed changes kept: {len(caught)} caught by at least one check, {len(missed)} missed, "
                f"{len(masked)} no longer a violation on the repaired tree (their demonstration passes there), {len(noapply)} do not apply to the current tree.\n")
        if missed:
            f.write("\nMissed: " + ", ".join(r["name"] for r in missed) + " (discussed in DESIGN.md section 10.5).\n")
    print(f"{len(rows)} seeds seen; see {OUT}/RESULTS.md")

if __name__ == "__main__":
    main()
