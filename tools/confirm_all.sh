#!/bin/bash
# Confirms every seeded change under the given roots, 4 at a time (each in its own scratch worktree).
cd /verif
mkdir -p work/seeds
job() {
  d=$1; root=$2
  id=$(basename $(dirname $(dirname $d))); k=$(basename $d)
  tag=$(basename $root)_${id}_${k}
  if [ -f work/seeds/$tag.confirm.json ]; then
    case $root in /tmp/seed) [ -f work/seeds/$tag.confirmhead.json ] || SEED_BASE=$(git -C /repo rev-parse HEAD) tools/confirm_seed.sh $d /verif/work/seeds/$tag.confirmhead.json;; esac
    return
  fi
  base=8ef576c
  case $root in /tmp/seed2*|/tmp/seed3*|/tmp/seed5*|/tmp/seed6*) base=$(git -C $root/$id rev-parse HEAD);; /tmp/seed_adapted*) base=$(git -C /repo rev-parse HEAD);; esac
  SEED_BASE=$base tools/confirm_seed.sh $d /verif/work/seeds/$tag.confirm.json
  # changes made against the pinned commit are also tried on the repaired tree: a repair may mask them
  case $root in /tmp/seed) SEED_BASE=$(git -C /repo rev-parse HEAD) tools/confirm_seed.sh $d /verif/work/seeds/$tag.confirmhead.json;; esac
  echo "$tag confirm: $(python3 -c "import json;d=json.load(open('/verif/work/seeds/$tag.confirm.json'));print({k:d.get(k) for k in ('demo_unchanged_exit','apply_exit','build_exit','demo_changed_exit','existing_tests_exit')})")"
}
export -f job
for root in "$@"; do
  for d in $root/*/out/*; do [ -f $d/patch.diff ] && echo "$d $root"; done
done | xargs -P 4 -L 1 bash -c 'job $0 $1'
