#!/bin/bash
# Applies every seeded change under the given roots to /repo in turn, runs the checks of the
# properties it should break, and restores /repo. Serial (it uses /repo itself).
cd /verif
mkdir -p work/seeds
for root in "$@"; do
 for d in $root/*/out/*; do
  [ -f $d/patch.diff ] || continue
  id=$(basename $(dirname $(dirname $d))); k=$(basename $d)
  tag=$(basename $root)_${id}_${k}
  [ -f work/seeds/$tag.check.txt ] && continue
  case $id in
    C01) props="C01 C10";; C08) props="C08 C10 C15 C03";; C09) props="C09 C01";; C10) props="C10 C01";;
    C15) props="C15 C08";; C18) props="C18";; C19) props="C19 C18";; C20) props="C20";;
    C02) props="C02 C05";; C03) props="C03 C02";; C04) props="C04";; C05) props="C05 C04";; C06) props="C06 C02";; C07) props="C07 C05 C06";;
    C11) props="C11 C15 C10";; C12) props="C12 C11";; C13) props="C13 C12";; C17) props="C17 C04";;
    *) props=$id;;
  esac
  tools/test_seed.sh $d/patch.diff $props > work/seeds/$tag.check.txt 2>&1
  echo "$tag: $(grep -c VIOLATION work/seeds/$tag.check.txt) violation lines | $(grep -o 'exit=[0-9]*' work/seeds/$tag.check.txt | tr '\n' ' ')"
 done
done
