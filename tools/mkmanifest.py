#!/usr/bin/env python3
"""Regenerates /verif/MANIFEST.json from the per-property table below and validates it."""
import json, subprocess, sys

ENV = "GOFLAGS=-mod=mod GOPROXY=off GOSUMDB=off GOTOOLCHAIN=local"

# property id -> claim (None = not claimed, with reason in NOT_APPLICABLE)
TECH = "contract-based deductive verification: weakest-precondition style VCs over go/ssa, contracts in //@ comment files, discharged by z3/cvc5"
TRUST = "Trusted: the govc VC generator, go/ssa, the SMT solvers, the extern models listed in the evidence file; lengths <= 2^40; int arithmetic mathematical. Obligations recorded as 'unclaimed' in baseline/obligations.json were not discharged within the claim budget and are not part of the claim; the evidence file lists them on every run. "

CLAIMS = {
    "C01": dict(
        category="proof",
        text="Deductive proof of the sequential, per-call content clauses of the property for the code that re-frames payloads: p2p.VecSize/VecBytes (concatenation, fresh result), "
             "fragswarm newMessage/parseMessage/aggregator/handleTell/Tell (every part carries id, index, count and a contiguous slice; a delivered message is the in-order concatenation of exactly the parts of one (source,id) group), "
             "mbapp Header accessors, collector.addPart, fragLayer and handleMessage/Tell/send (offsets are partIndex*partSize, total size respected, callers' buffers not written: frame obligations). "
             "Schedules, the transports below (UDP/QUIC/SSH) and the purely forwarding wrappers are outside what a function contract decides and are not claimed.",
        design_ref="DESIGN.md section 5, C01",
        note=TRUST + "Not covered: interleavings of concurrent senders, memswarm/udpswarm/quicswarm/sshswarm I/O, multiswarm/wlswarm/vswarm forwarding.",
    ),
    "C08": dict(
        category="proof",
        text="No-panic proof for the parsers and reassemblers that consume network bytes: every index, slice, make, division and type-assertion obligation in the p2pmux demux functions, "
             "fragswarm parseMessage/aggregator/handleTell, mbapp ParseMessage/Header accessors/bitMap/collector/fragLayer/handleMessage is generated from SSA for arbitrary input bytes and discharged; "
             "a refuted obligation is replayed on the real code through go test -overlay.",
        design_ref="DESIGN.md section 5, C08",
        note=TRUST + "Not covered: p2pke message parsing (checked under C02/C03), quic/ssh library internals, address parsers (C16).",
    ),
    "C09": dict(
        category="proof",
        text="Deductive proof of the MTU arithmetic and of the send-side guards: fragswarm.MTU and mbapp.MTU return min(configured, what the part counter can address) and Tell/Ask/send refuse (ErrMTUExceeded-style error, no send) any vector whose VecSize exceeds it, "
             "while every accepted size yields parts each within the underlying MTU and part counts within the header field widths.",
        design_ref="DESIGN.md section 5, C09",
        note=TRUST + "The underlying swarm's own MTU honesty is an assumed contract (interface call); transports are not covered.",
    ),
    "C10": dict(
        category="proof",
        text="Deductive proof of the reassembly state machines: fragswarm aggregator.addPart/assemble and mbapp bitMap/collector/fragLayer keep their representation invariants for every input "
             "(part index within count, offsets within the buffer, a part recorded once), completion is reported only when every part of that group has been recorded, and groups are keyed by (source,id) so parts never cross groups.",
        design_ref="DESIGN.md section 5, C10",
        note=TRUST + "Garbage collection timing of incomplete groups and concurrency of handleTell are not covered.",
    ),
    "C15": dict(
        category="proof",
        text="Deductive proof, for all channel ids and payloads, that each of the five p2pmux framings (uint16/uint32/uint64/uvarint/string) is injective and self-delimiting: demux(mux(c, v)) == (c, concat(v)) and demux never panics or reads outside its input; "
             "the mux functions do not write the caller's buffers (frame obligations).",
        design_ref="DESIGN.md section 5, C15",
        note=TRUST + "encoding/binary models are trusted. The dispatch of demuxed frames to per-channel hubs (a map lookup under a lock) is covered only by inspection, not by obligations.",
    ),
    "C18": dict(
        category="proof",
        text="Deductive proof of the kademlia Cache as a bounded map over an abstract view: bucket get/put/delete/expire/evict/update and Cache.bucketIndex/Get/Delete/evict/Expire/Update keep count == sum of bucket sizes <= max, locus never stored, "
             "Get after Put returns the stored entry, Delete/Expire remove only what they should, and eviction removes from the farthest non-empty bucket.",
        design_ref="DESIGN.md section 5, C18",
        note=TRUST + "Map model (domain/value/cardinality arrays, range yields each key once) and time.Time as an integer instant are assumptions. Some quantified postconditions of Cache.Update are unclaimed.",
    ),
    "C19": dict(
        category="proof",
        text="Deductive proof, for all byte strings of all lengths, of the comparison laws the property states: "
             "DistanceCmp/DistanceLt/DistanceGt equal the lexicographic comparison of the two XOR distances (spec function dcmpFrom, "
             "inductive loop invariant), Distance/XORBytes are the pointwise XOR of length min, LeadingZeros is the index of the first set bit. "
             "Every obligation (postconditions, loop invariants, bounds, frames) is generated from the SSA of /repo's current source and discharged by an SMT solver. "
             "The enumeration-order clauses (Cache.ForEach/Closest/ForEachCloser) are not yet claimed by this check.",
        design_ref="DESIGN.md section 5, C19",
        note=TRUST + "math/bits.LeadingZeros8 by its exact table model. Not covered yet: cache enumeration order.",
    ),
}
for _c in CLAIMS.values():
    _c.setdefault("technique", TECH)

NOT_APPLICABLE = {
    "C14": "Data-race freedom quantifies over the interleavings the Go memory model distinguishes; contracts on sequential function bodies (the technique studied here) cannot express or decide it without a permission logic, which this engine does not have (DESIGN.md section 5, C14).",
}

PENDING = "check not built yet (engine under construction); the planned claim is described in DESIGN.md section 5"


def main():
    props = [json.loads(l) for l in open("/verif/properties.jsonl")]
    checks = []
    na = []
    for p in props:
        pid = p["id"]
        c = CLAIMS.get(pid)
        if c is None:
            na.append({"property_id": pid, "reason": NOT_APPLICABLE.get(pid, PENDING)})
            continue
        checks.append({
            "property_id": pid,
            "quick_cmd": f"bin/govc check {pid} --tier quick",
            "thorough_cmd": f"bin/govc check {pid} --tier thorough",
            "evidence_file": f"/verif/evidence/{pid}.json",
            "replay_cmd_template": "bin/govc replay {path}",
            "engine": "govc",
            "level_claimed": {"category": c["category"], "text": c["text"], "design_ref": c["design_ref"]},
            "level_note": c["note"],
            "technique": c["technique"],
        })
    hooks = subprocess.run(["git", "-C", "/repo", "log", "--format=%H %s"], capture_output=True, text=True).stdout.splitlines()
    hook_commits = [l.split()[0] for l in hooks if " verif hook:" in " " + l.split(" ", 1)[1] or l.split(" ", 1)[1].startswith("verif hook:")]
    m = {
        "version": 1,
        "setup_cmd": f"cd /verif/govc && {ENV} go build -o /verif/bin/govc .",
        "hooks": {
            "guard": "verif",
            "enable": "go build -tags verif ./...  (the hook files are comment-only contract files zz_contracts_verif.go; checks load /repo with -tags=verif)",
            "baseline_off_cmd": f"cd /repo && {ENV} go test -vet=off -count=1 -timeout 25m ./...",
            "source_commits": hook_commits,
            "add_only": True,
        },
        "engines": [{
            "name": "govc",
            "path": "/verif/govc",
            "serves_properties": [c["property_id"] for c in checks],
            "kind_free_text": "VC generator for Go written for this task: symbolic execution of go/ssa with contracts (requires/ensures/loop invariants/modifies) from //@ comment files in /repo, obligations discharged by z3 4.8.12, z3 5.1.0 and cvc5 1.0 raced per obligation",
        }],
        "checks": checks,
        "notes": "Baseline of claimed obligations: /verif/baseline/obligations.json; known findings: /verif/known_findings.json; design: /verif/DESIGN.md.",
        "not_applicable": na,
    }
    json.dump(m, open("/verif/MANIFEST.json", "w"), indent=1)
    try:
        import jsonschema
        jsonschema.validate(m, json.load(open("/root/.vp/MANIFEST.schema.json")))
        print("MANIFEST.json valid;", len(checks), "checks,", len(na), "not applicable")
    except ImportError:
        print("jsonschema not available; MANIFEST.json written unvalidated")


if __name__ == "__main__":
    main()
