#!/usr/bin/env python3
"""Regenerates /verif/MANIFEST.json from the per-property table below and validates it."""
import json, subprocess, sys

ENV = "GOFLAGS=-mod=mod GOPROXY=off GOSUMDB=off GOTOOLCHAIN=local"

# property id -> claim (None = not claimed, with reason in NOT_APPLICABLE)
TECH = "contract-based deductive verification: weakest-precondition style VCs over go/ssa, contracts in //@ comment files, discharged by z3/cvc5"
TRUST = "Trusted: the govc VC generator, go/ssa, the SMT solvers, the extern models listed in the evidence file; lengths <= 2^40; int arithmetic mathematical. Obligations recorded as 'unclaimed' in baseline/obligations.json were not discharged within the claim budget and are not part of the claim; the evidence file lists them on every run. "

CLAIMS = {
    "C01": dict(
        category="proof",
        text="Deductive proof of the sequential, per-call content clauses of the property for the code that re-frames payloads: p2p.VecSize/VecBytes (concatenation, fresh result), "
             "fragswarm newMessage/parseMessage/aggregator/handleTell/Tell (every part carries id, index, count and a contiguous slice; a delivered message is the in-order concatenation of exactly the parts of one (source,id) group), "
             "mbapp Header accessors, collector.addPart, fragLayer and handleMessage/Tell/send (offsets are partIndex*partSize, total size respected, callers' buffers not written: frame obligations), "
             "the swarmutil bounded queue (a queued message is a copy of the sender's payload in a recycled buffer; a dequeued message reaches a callback before its buffer is recycled). "
             "Schedules, the transports below (UDP/QUIC/SSH) and the purely forwarding wrappers are outside what a function contract decides and are not claimed.",
        design_ref="DESIGN.md section 5, C01",
        note=TRUST + "Not covered: interleavings of concurrent senders, memswarm/udpswarm/quicswarm/sshswarm I/O, multiswarm/wlswarm/vswarm forwarding.",
    ),
    "C02": dict(
        category="proof",
        text="Deductive proof of the counter, gating and ordering obligations of the p2pke session, with the cryptography behind assumed contracts: Session.Send encrypts only when the session can send, "
             "with a counter >= 16 that it then increments (no counter is used twice with one cipher, counters 0..15 stay reserved for the handshake), and refuses at the message limit or after expiry; "
             "Session.Deliver hands out application data only after a successful AEAD open under the counter taken from the header and consults the replay filter after, never before, decryption; "
             "an error leaves the session state unchanged. At the channel, application data is returned only from a session that went through promotion.",
        design_ref="DESIGN.md section 5, C02 and section 10",
        note=TRUST + "Assumed, not proved: AEAD / Noise / signature soundness, the replay filter's at-most-once contract, frames of the crypto glue (assumeframe, listed per run). Concurrent Send calls are not covered (atomic counter modelled sequentially).",
    ),
    "C03": dict(
        category="proof",
        text="Deductive proof of the authentication gating of the p2pke session state machine: the handshake index advances only by the step relation of the protocol (0->1->3 for the responder, 0->2->4 for the initiator, ->8 on data), "
             "each advance happens only after the corresponding reader returned nil, and each reader returns nil only after the peer's signature (or AEAD tag) over this handshake's channel binding verified; "
             "canSend/canReceive/IsReady are exactly the index thresholds; data is refused before the thresholds.",
        design_ref="DESIGN.md section 5, C03 and section 10",
        note=TRUST + "Signature verification is an uninterpreted pure call whose true result is taken as proof of possession; Noise channel binding freshness is assumed.",
    ),
    "C04": dict(
        category="proof",
        text="Deductive proof for the p2pkeswarm glue: both AcceptKey closures the swarm builds consult the whitelist (and, for outbound channels, the requested identity) before returning true; "
             "handleMessage attributes a delivered message to the fingerprint of the key returned by its channel's RemoteKey, with the transport source address and exactly the plaintext the channel returned; "
             "getFullAddr returns a channel only after the fingerprint of its authenticated key equals the requested identity. Together with the channel contracts of C05 (AcceptKey is consulted in both roles). "
             "quicswarm glue: a dialled session is cached and used only after the identity of its peer certificate was compared with the requested one; an accepted session is admitted only after the whitelist accepted that identity; tells and asks are attributed to the address the session was authenticated as. sshswarm: newServer names an accepted connection (pubKey and the fingerprint of its remote address) after the key that authenticated it, not after a key that was merely offered.",
        design_ref="DESIGN.md section 5, C04 and section 10",
        note=TRUST + "TLS (certificate verification, what remoteAddrFromSession reads) and the session cache are behind trusted contracts. sshswarm: only the server side (newServer) is under contract, against a model of ssh.NewServerConn (callback invoked for two arbitrary offered keys in either order, connection carries the Permissions of the one that authenticated); the client side relies on HostKeyCallback comparing the fingerprint and is not under contract.",
    ),
    "C05": dict(
        category="proof",
        text="Deductive proof over the p2pke Channel: checkKey accepts only the bound key or, when none is bound, a key AcceptKey returned true for; newResp and onReadySession (both roles) go through it; "
             "a session is promoted to current only by onReadySession; a failed promotion leaves previous/current sessions, the bound key and lastReceived untouched; the bound key changes only through a successful promotion and only to a key equal to the old one; "
             "the slot invariant (previous/current ready, next not ready, pairwise distinct) is preserved by every channel operation.",
        design_ref="DESIGN.md section 5, C05 and section 10",
        note=TRUST + "Key bytes held by sessions are assumed not to be written after parsing. Interleavings of concurrent Deliver/Send are not decided (mutex sections are reasoned about sequentially).",
    ),
    "C06": dict(
        category="proof",
        text="Deductive proof of the per-message clauses of handshake robustness: Handshake/writeHandshake do not change the session (idempotent retransmission, same cached bytes), never panic under the session invariant; "
             "readHandshake/Deliver never regress the handshake index, advance it only along the protocol's step relation, and leave index and counter unchanged on any error; data completes the initiator (index 8) even if RespDone was lost.",
        design_ref="DESIGN.md section 5, C06 and section 10",
        note=TRUST + "The convergence sentence (both sides become ready after one more in-order delivery) is a whole-history property and is not decided.",
    ),
    "C07": dict(
        category="proof",
        text="Deductive proof of the safety skeleton of channel establishment: a session that becomes ready in the next slot is promoted in the same Deliver call (also when application data is what made it ready), "
             "the simultaneous-initiator tie-break keeps exactly one prospective session, lastReceived is refreshed by every delivered application message and by promotion, "
             "expireSessions tears the current session down only when it is expired or idle beyond KeepAliveTimeout, "
             "and an InitHello is offered only to the responder session created from it while handshake messages go to the newest session first (a restarted peer is not answered by the old session).",
        design_ref="DESIGN.md section 5, C07 and section 10",
        note=TRUST + "The latency / liveness part of the property (Send completes within a bounded number of retransmission intervals) is not decided by contracts.",
    ),
    "C08": dict(
        category="proof",
        text="No-panic proof for the parsers and reassemblers that consume network bytes: every index, slice, make, division and type-assertion obligation in the p2pmux demux functions, "
             "fragswarm parseMessage/aggregator/handleTell, mbapp ParseMessage/Header accessors/bitMap/collector/fragLayer/handleMessage, p2pke parseInitHello and the DHT node's FindNode handler (any limit, negative included) is generated from SSA for arbitrary input bytes and discharged; "
             "a new failing panic-class obligation in a function that was panic-free on the unchanged tree is reported even if that kind of obligation did not occur in it before; "
             "a refuted obligation is replayed on the real code through go test -overlay.",
        design_ref="DESIGN.md section 5, C08",
        note=TRUST + "Not covered: the other p2pke message parsers (protobuf decoding is a library; the readers are checked under C02/C03), the DHT node's Put/Get handlers, quic/ssh library internals, address parsers (C16).",
    ),
    "C09": dict(
        category="proof",
        text="Deductive proof of the MTU arithmetic and of the send-side guards: fragswarm.MTU and mbapp.MTU return min(configured, what the part counter can address) and Tell/Ask/send refuse (ErrMTUExceeded-style error, no send) any vector whose VecSize exceeds it, "
             "while every accepted size yields parts each within the underlying MTU and part counts within the header field widths.",
        design_ref="DESIGN.md section 5, C09",
        note=TRUST + "The underlying swarm's own MTU honesty is an assumed contract (interface call); transports are not covered.",
    ),
    "C10": dict(
        category="proof",
        text="Deductive proof of the reassembly state machines: fragswarm aggregator.addPart/assemble and mbapp bitMap/collector/fragLayer keep their representation invariants for every input "
             "(part index within count, offsets within the buffer, a part recorded once), completion is reported only when every part of that group has been recorded, and groups are keyed by (source,id) so parts never cross groups.",
        design_ref="DESIGN.md section 5, C10",
        note=TRUST + "Garbage collection timing of incomplete groups and concurrency of handleTell are not covered.",
    ),
    "C11": dict(
        category="proof",
        text="Deductive proof of the sequential Ask clauses: AskHub.Deliver reports success only after the rendezvous send (the answer is the one the serving callback wrote into this request) and n == 0 with every error; "
             "a closed hub always carries a non-nil error, so Ask / ServeAsk on a closed swarm fail; p2pmux dispatches an ask only after it demultiplexed without error and with exactly the demultiplexed body; "
             "vswarm turns negative handler results into errors and refuses oversize asks; mbapp and sshswarm return an error, not a truncated success, when the response does not fit; the serving side of sshswarm (Conn.loop) answers ok=true only with the bytes a handler produced (a request the hub refused, or a negative result, is answered ok=false).",
        design_ref="DESIGN.md section 5, C11 and section 10",
        note=TRUST + "mbapp: an ask is registered under the text of the destination address and its (counter, origin time), and a reply looks up the text of its source address and its id (String() of an address is an uninterpreted function of the address); that the Go map returns what was stored under that key, matching on quic streams, and timing are not covered.",
    ),
    "C12": dict(
        category="proof",
        text="Deductive proof of: closed => stored error non-nil (both hubs, also for Close() without a reason); every blocking select in TellHub.Receive/Deliver and AskHub.ServeAsk/Deliver has a receive case on the hub's closed channel (wake-on-close obligation per select); "
             "Receive/ServeAsk called on a closed hub return a non-nil error; the bounded queue's Receive has the same wake obligations. multiswarm: Close closes the tell hub and, for a swarm built by NewSecureAsk, the ask hub, "
             "whatever the inner swarms' Close calls return, and NewSecureAsk hands the composite the multiSwarm that references its asker. Close of mbapp.Swarm, p2pmux's channel swarm, p2pkeswarm, quicswarm, sshswarm and vswarm (through Realm.Drop) "
             "closes every hub / queue the swarm owns whatever the inner swarm, listener or transport does; Queue.Close closes the queue's closed signal; fragswarm's receive loops end by closing its tell hub.",
        design_ref="DESIGN.md section 5, C12 and section 10",
        note=TRUST + "'No callback after Close returned', goroutine release, the closing of inner swarms, and that fragswarm's receive loops do end after Close (they depend on the inner swarm's Receive failing) are not decided. Library calls inside the Close methods are assumed to keep the hubs' invariants (listed per call in the evidence).",
    ),
    "C13": dict(
        category="proof",
        text="Deductive proof of: every blocking select in the hubs has a receive case on ctx.Done() and returns ctx.Err() through it (non-nil once Done is closed); Receive/ServeAsk return nil only after the callback was called; "
             "a hub Deliver returns nil only through its rendezvous send and then waits for the request's done channel, which only the receiver closes, after its callback.",
        design_ref="DESIGN.md section 5, C13 and section 10",
        note=TRUST + "Exactly-one-receiver under races is a property of Go's channel semantics and is assumed. udpswarm.Receive blocks in a socket read that no cancellation wakes: reported as KNOWN-FINDING on every run.",
    ),
    "C15": dict(
        category="proof",
        text="Deductive proof, for all channel ids and payloads, that each of the five p2pmux framings (uint16/uint32/uint64/uvarint/string) is injective and self-delimiting: demux(mux(c, v)) == (c, concat(v)) and demux never panics or reads outside its input; "
             "the mux functions do not write the caller's buffers (frame obligations).",
        design_ref="DESIGN.md section 5, C15",
        note=TRUST + "encoding/binary models are trusted. The dispatch of demuxed frames to per-channel hubs (a map lookup under a lock) is covered only by inspection, not by obligations.",
    ),
    "C16": dict(
        category="exploration",
        text="BOUNDED stand-in, not a proof and not counted as one: no contract within reach decides this property (the parsers are net/netip, regexp, strconv, base64, fmt), so the round-trip clause itself is executed on the real marshal / parse functions "
             "over stated finite domains: udpswarm (12 IPs x 5 ports, 26 texts), sshswarm (64 key fingerprints x 4 IPs x 3 ports, 14 texts), quicswarm and p2pkeswarm nested addresses (6 ids x 8 inner addresses, 12 doubly nested, 10 texts each), multiswarm (12 addresses, 6 nested multiswarm-in-multiswarm, 8 texts). "
             "For every address: parse(marshal(a)) == a; for every text that parses: the parsed address marshals and parses back to itself.",
        design_ref="DESIGN.md section 5, C16 and section 10",
        note="Bounded: only the enumerated cases are covered. memswarm and vswarm addresses are not covered. Harnesses: /verif/bounded/c16, injected with go test -overlay (nothing is written into /repo).",
        technique="bounded stand-in for a contract clause (enumerated domain executed on the real code); labelled bounded",
    ),
    "C17": dict(
        category="proof",
        text="Deductive proof of the contract-expressible clauses: PeerID.UnmarshalText returns nil only if the base64 decoder reported no error and leaves the id unchanged on error; "
             "x509.EqualPublicKeys is true exactly when algorithm and key bytes are equal; both default fingerprinters hash the canonical re-marshalled key and nothing else. "
             "One known finding is reported on every run: quicswarm hashes with SHA3-256, p2pkeswarm with SHAKE-256.",
        design_ref="DESIGN.md section 5, C17 and section 10",
        note=TRUST + "The ASN.1 marshal/parse round trip and order preservation of the base64 alphabet are not decided (library code outside reach; no bounded stand-in built).",
    ),
    "C18": dict(
        category="proof",
        text="Deductive proof of the kademlia Cache as a bounded map over an abstract view: bucket get/put/delete/expire/evict/update and Cache.bucketIndex/Get/Delete/evict/Expire/Update keep count == sum of bucket sizes <= max, locus never stored, "
             "Get after Put returns the stored entry, Delete/Expire remove only what they should, every bucket's earliest-expiry shortcut stays a lower bound of the expiry times it holds (preserved by every bucket and cache operation), so Expire leaves no expired entry in any bucket, and eviction removes from the farthest non-empty bucket.",
        design_ref="DESIGN.md section 5, C18",
        note=TRUST + "Map model (domain/value/cardinality arrays, range yields each key once) and time.Time as an integer instant are assumptions. The step obligations of the bucket-creating loop in Cache.Update (append of a new bucket) are undecided and unclaimed.",
    ),
    "C20": dict(
        category="proof",
        text="Deductive proof with a ghost set of contacted ids: dhtIterate never calls its callback twice with the same node id, whatever lists the callbacks return (loop invariant: contacted-ghost is a subset of the visited map); "
             "DHTPut/DHTGet update Closest exactly when the answering node is the first or strictly nearer, count one acceptance / response per contacted node, and DHTPut reports an error exactly when accepted < required; "
             "none of the four operations can hand dhtIterate a non-positive width.",
        design_ref="DESIGN.md section 5, C20 and section 10",
        note=TRUST + "Termination is not decided. Callbacks are arbitrary but assumed not to reach the iteration's local state.",
    ),
    "C19": dict(
        category="proof",
        text="Deductive proof, for all byte strings of all lengths, of the comparison laws the property states: "
             "DistanceCmp/DistanceLt/DistanceGt equal the lexicographic comparison of the two XOR distances (spec function dcmpFrom, "
             "inductive loop invariant), Distance/XORBytes are the pointwise XOR of length min, LeadingZeros is the index of the first set bit. "
             "Every obligation (postconditions, loop invariants, bounds, frames) is generated from the SSA of /repo's current source and discharged by an SMT solver. "
             "Enumeration: Cache.ForEach visits every bucket exactly once unless the callback stops it, in the order bucket(lz), deeper buckets with distance bit 1 by increasing depth, deeper buckets with bit 0 by decreasing depth, shallower buckets by decreasing depth "
             "(ghost visited-set and phase/last variables, loop invariants); that this bucket order is the nearest-first order of entries is a separate lemma checked for 32-bit keys on every run (bounded, not counted as proved).",
        design_ref="DESIGN.md section 5, C19",
        note=TRUST + "math/bits.LeadingZeros8 by its exact table model. Within a bucket the order rests on slices.SortFunc (assumed). The bucket-order lemma is bounded (32-bit keys). ForEachCloser/Closest are thin wrappers over ForEach and are not under contract.",
    ),
}
for _c in CLAIMS.values():
    _c.setdefault("technique", TECH)

NOT_APPLICABLE = {
    "C14": "Data-race freedom quantifies over the interleavings the Go memory model distinguishes; contracts on sequential function bodies (the technique studied here) cannot express or decide it without a permission logic, which this engine does not have (DESIGN.md section 5, C14).",
}

PENDING = "check not built yet (engine under construction); the planned claim is described in DESIGN.md section 5"


def main():
    props = [json.loads(l) for l in open("/verif/properties.jsonl")]
    checks = []
    na = []
    for p in props:
        pid = p["id"]
        c = CLAIMS.get(pid)
        if c is None:
            na.append({"property_id": pid, "reason": NOT_APPLICABLE.get(pid, PENDING)})
            continue
        checks.append({
            "property_id": pid,
            "quick_cmd": f"bin/govc check {pid} --tier quick",
            "thorough_cmd": f"bin/govc check {pid} --tier thorough",
            "evidence_file": f"/verif/evidence/{pid}.json",
            "replay_cmd_template": "bin/govc replay {path}",
            "engine": "govc",
            "level_claimed": {"category": c["category"], "text": c["text"], "design_ref": c["design_ref"]},
            "level_note": c["note"],
            "technique": c["technique"],
        })
    hooks = subprocess.run(["git", "-C", "/repo", "log", "--format=%H %s"], capture_output=True, text=True).stdout.splitlines()
    hook_commits = [l.split()[0] for l in hooks if " verif hook:" in " " + l.split(" ", 1)[1] or l.split(" ", 1)[1].startswith("verif hook:")]
    m = {
        "version": 1,
        "setup_cmd": f"cd /verif/govc && {ENV} go build -o /verif/bin/govc .",
        "hooks": {
            "guard": "verif",
            "enable": "go build -tags verif ./...  (the hook files are comment-only contract files zz_contracts_verif.go; checks load /repo with -tags=verif)",
            "baseline_off_cmd": f"cd /repo && {ENV} go test -vet=off -count=1 -timeout 25m ./...",
            "source_commits": hook_commits,
            "add_only": True,
        },
        "engines": [{
            "name": "govc",
            "path": "/verif/govc",
            "serves_properties": [c["property_id"] for c in checks],
            "kind_free_text": "VC generator for Go written for this task: symbolic execution of go/ssa with contracts (requires/ensures/loop invariants/modifies) from //@ comment files in /repo, obligations discharged by z3 4.8.12, z3 5.1.0 and cvc5 1.0 raced per obligation",
        }],
        "checks": checks,
        "notes": "Baseline of claimed obligations: /verif/baseline/obligations.json; known findings: /verif/known_findings.json; design: /verif/DESIGN.md.",
        "not_applicable": na,
    }
    json.dump(m, open("/verif/MANIFEST.json", "w"), indent=1)
    try:
        import jsonschema
        jsonschema.validate(m, json.load(open("/root/.vp/MANIFEST.schema.json")))
        print("MANIFEST.json valid;", len(checks), "checks,", len(na), "not applicable")
    except ImportError:
        print("jsonschema not available; MANIFEST.json written unvalidated")


if __name__ == "__main__":
    main()
