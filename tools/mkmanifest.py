#!/usr/bin/env python3
"""Regenerates /verif/MANIFEST.json from the per-property table below and validates it."""
import json, subprocess, sys

ENV = "GOFLAGS=-mod=mod GOPROXY=off GOSUMDB=off GOTOOLCHAIN=local"

# property id -> claim (None = not claimed, with reason in NOT_APPLICABLE)
CLAIMS = {
    "C19": dict(
        category="proof",
        text="Deductive proof, for all byte strings of all lengths, of the comparison laws the property states: "
             "DistanceCmp/DistanceLt/DistanceGt equal the lexicographic comparison of the two XOR distances (spec function dcmpFrom, "
             "inductive loop invariant), Distance/XORBytes are the pointwise XOR of length min, LeadingZeros is the index of the first set bit. "
             "Every obligation (postconditions, loop invariants, bounds, frames) is generated from the SSA of /repo's current source and discharged by an SMT solver. "
             "The enumeration-order clauses (Cache.ForEach/Closest/ForEachCloser) are under construction and not yet claimed by this check.",
        design_ref="DESIGN.md section 5, C19",
        note="Trusted: the govc VC generator, go/ssa, the SMT solvers; math/bits.LeadingZeros8 by its exact table model; lengths <= 2^40; int arithmetic mathematical. Not covered yet: cache enumeration order.",
        technique="contract-based deductive verification: weakest-precondition style VCs over go/ssa, contracts in //@ comment files, discharged by z3/cvc5",
    ),
}

NOT_APPLICABLE = {
    "C14": "Data-race freedom quantifies over the interleavings the Go memory model distinguishes; contracts on sequential function bodies (the technique studied here) cannot express or decide it without a permission logic, which this engine does not have (DESIGN.md section 5, C14).",
}

PENDING = "check not built yet (engine under construction); the planned claim is described in DESIGN.md section 5"


def main():
    props = [json.loads(l) for l in open("/verif/properties.jsonl")]
    checks = []
    na = []
    for p in props:
        pid = p["id"]
        c = CLAIMS.get(pid)
        if c is None:
            na.append({"property_id": pid, "reason": NOT_APPLICABLE.get(pid, PENDING)})
            continue
        checks.append({
            "property_id": pid,
            "quick_cmd": f"bin/govc check {pid} --tier quick",
            "thorough_cmd": f"bin/govc check {pid} --tier thorough",
            "evidence_file": f"/verif/evidence/{pid}.json",
            "replay_cmd_template": "bin/govc replay {path}",
            "engine": "govc",
            "level_claimed": {"category": c["category"], "text": c["text"], "design_ref": c["design_ref"]},
            "level_note": c["note"],
            "technique": c["technique"],
        })
    hooks = subprocess.run(["git", "-C", "/repo", "log", "--format=%H %s"], capture_output=True, text=True).stdout.splitlines()
    hook_commits = [l.split()[0] for l in hooks if " verif hook:" in " " + l.split(" ", 1)[1] or l.split(" ", 1)[1].startswith("verif hook:")]
    m = {
        "version": 1,
        "setup_cmd": f"cd /verif/govc && {ENV} go build -o /verif/bin/govc .",
        "hooks": {
            "guard": "verif",
            "enable": "go build -tags verif ./...  (the hook files are comment-only contract files zz_contracts_verif.go; checks load /repo with -tags=verif)",
            "baseline_off_cmd": f"cd /repo && {ENV} go test -vet=off -count=1 -timeout 25m ./...",
            "source_commits": hook_commits,
            "add_only": True,
        },
        "engines": [{
            "name": "govc",
            "path": "/verif/govc",
            "serves_properties": [c["property_id"] for c in checks],
            "kind_free_text": "VC generator for Go written for this task: symbolic execution of go/ssa with contracts (requires/ensures/loop invariants/modifies) from //@ comment files in /repo, obligations discharged by z3 4.8.12, z3 5.1.0 and cvc5 1.0 raced per obligation",
        }],
        "checks": checks,
        "notes": "Baseline of claimed obligations: /verif/baseline/obligations.json; known findings: /verif/known_findings.json; design: /verif/DESIGN.md.",
        "not_applicable": na,
    }
    json.dump(m, open("/verif/MANIFEST.json", "w"), indent=1)
    try:
        import jsonschema
        jsonschema.validate(m, json.load(open("/root/.vp/MANIFEST.schema.json")))
        print("MANIFEST.json valid;", len(checks), "checks,", len(na), "not applicable")
    except ImportError:
        print("jsonschema not available; MANIFEST.json written unvalidated")


if __name__ == "__main__":
    main()
