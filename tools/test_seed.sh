#!/bin/bash
# Applies a seeded change to /repo, runs the given property checks, and reverts /repo.
# usage: test_seed.sh <patch.diff> <prop> [<prop> ...]
set -u
PATCH=$1; shift
cd /repo
if ! git diff --quiet; then echo "/repo has uncommitted changes; refusing"; exit 2; fi
if ! git apply "$PATCH" 2>/tmp/apply_err.txt; then
  if ! git apply -3 "$PATCH" 2>>/tmp/apply_err.txt; then
    echo "PATCH DOES NOT APPLY: $(head -3 /tmp/apply_err.txt)"; git reset -q --hard; exit 3
  fi
fi
export GOFLAGS=-mod=mod GOPROXY=off GOSUMDB=off GOTOOLCHAIN=local
if ! go build ./... 2>/tmp/build_err.txt; then echo "BUILD FAILS: $(head -3 /tmp/build_err.txt)"; git reset -q --hard; exit 4; fi
cd /verif
RC=0
for p in "$@"; do
  out=$(bin/govc check "$p" 2>&1)
  rc=$?
  echo "$out" | grep -E "^\[$p\]|VIOLATION" | cut -c1-220
  echo "  -> $p exit=$rc"
  [ $rc -ne 0 ] && RC=1
done
cd /repo && git reset -q --hard
exit $RC
