; Lemma (bounded: 32-bit keys). Cross-bucket order of the kademlia cache.
; L = locus, k = target, e1/e2 = stored keys. An entry e lives in bucket clz(L xor e).
; lz = clz(L xor k). Visit rank of bucket i (what Cache.ForEach's contract enforces):
;   i == lz                      -> group 0
;   i >  lz and bit i of d is 1  -> group 1, increasing i
;   i >  lz and bit i of d is 0  -> group 2, decreasing i
;   i <  lz                      -> group 3, decreasing i
; Claim: if bucket(e1) is visited before bucket(e2) then e1 is strictly nearer to k than e2.
; The negation below must be unsat.
(set-logic QF_BV)
(declare-const L (_ BitVec 32))
(declare-const k (_ BitVec 32))
(declare-const e1 (_ BitVec 32))
(declare-const e2 (_ BitVec 32))
(declare-const i1 (_ BitVec 32))
(declare-const i2 (_ BitVec 32))
(declare-const lz (_ BitVec 32))
; top i bits set (i <= 32)
(define-fun mask ((i (_ BitVec 32))) (_ BitVec 32) (ite (= i #x00000020) #xffffffff (bvnot (bvlshr #xffffffff i))))
; clz(x) == i
(define-fun clzis ((x (_ BitVec 32)) (i (_ BitVec 32))) Bool
  (ite (= i #x00000020) (= x #x00000000)
       (and (bvult i #x00000020) (= (bvand x (mask i)) #x00000000) (bvuge (bvshl x i) #x80000000))))
; bit i (most significant first) of x, for i < 32
(define-fun bitat ((x (_ BitVec 32)) (i (_ BitVec 32))) Bool (bvuge (bvshl x i) #x80000000))
(define-fun d () (_ BitVec 32) (bvxor L k))
(define-fun grp ((i (_ BitVec 32))) (_ BitVec 32)
  (ite (= i lz) #x00000000 (ite (bvugt i lz) (ite (bitat d i) #x00000001 #x00000002) #x00000003)))
; rank within a group: increasing i in group 1, decreasing i in groups 2 and 3
(define-fun before ((a (_ BitVec 32)) (b (_ BitVec 32))) Bool
  (or (bvult (grp a) (grp b))
      (and (= (grp a) (grp b)) (= (grp a) #x00000001) (bvult a b))
      (and (= (grp a) (grp b)) (bvuge (grp a) #x00000002) (bvugt a b))))
(assert (clzis (bvxor L e1) i1))
(assert (clzis (bvxor L e2) i2))
(assert (bvult i1 #x00000020))
(assert (bvult i2 #x00000020))
(assert (clzis d lz))
(assert (before i1 i2))
(assert (not (bvult (bvxor k e1) (bvxor k e2))))
(check-sat)
